package main

import (
	"bufio"
	"crypto/sha1"
	"encoding/json"
	"flag"
	"fmt"
	"io"
	"math/rand"
	"os"
	"os/exec"
	"path/filepath"
	"regexp"
	"runtime"
	"sort"
	"strconv"
	"strings"
	"sync"
	"syscall"
	"time"
)

type knownFile struct {
	ids   map[string]bool   // listed known-finding ids
	sites map[string]string // harness|site -> id
	desc  map[string]string // id -> text
	prop  map[string]string // id -> property
}

var knownRe = regexp.MustCompile(`^known:\s+property=(\S+)\s+id=(\S+)\s+(?:key=(.*?)\s+::\s+)?(.*)$`)

func readKnown(path string) *knownFile {
	k := &knownFile{ids: map[string]bool{}, sites: map[string]string{}, desc: map[string]string{}, prop: map[string]string{}}
	data, err := os.ReadFile(path)
	if err != nil {
		return k
	}
	for _, l := range strings.Split(string(data), "\n") {
		l = strings.TrimSpace(l)
		m := knownRe.FindStringSubmatch(l)
		if m == nil {
			continue
		}
		k.ids[m[2]] = true
		k.prop[m[2]] = m[1]
		k.desc[m[2]] = m[4]
		if m[3] != "" {
			k.sites[m[3]] = m[2]
		}
	}
	return k
}

type workerProc struct {
	cmd  *exec.Cmd
	in   io.WriteCloser
	out  *bufio.Reader
	busy bool
}

func startWorker(self, cfgPath string) (*workerProc, error) {
	cmd := exec.Command(self, "worker", cfgPath)
	cmd.SysProcAttr = &syscall.SysProcAttr{Pdeathsig: syscall.SIGKILL}
	cmd.Stderr = os.Stderr
	cmd.Env = goEnv()
	in, err := cmd.StdinPipe()
	if err != nil {
		return nil, err
	}
	o, err := cmd.StdoutPipe()
	if err != nil {
		return nil, err
	}
	if err := cmd.Start(); err != nil {
		return nil, err
	}
	w := &workerProc{cmd: cmd, in: in, out: bufio.NewReaderSize(o, 1<<22)}
	line, err := w.out.ReadString('\n')
	if err != nil || !strings.Contains(line, "ready") {
		cmd.Process.Kill()
		cmd.Wait()
		return nil, fmt.Errorf("worker failed to start: %s", strings.TrimSpace(line))
	}
	return w, nil
}

func (w *workerProc) kill() {
	if w.cmd != nil && w.cmd.Process != nil {
		w.cmd.Process.Kill()
	}
}

func (w *workerProc) stop() {
	if w.cmd != nil && w.cmd.Process != nil {
		w.cmd.Process.Kill()
		w.cmd.Wait()
	}
}

type checkOpts struct {
	prop, tier, match string
	jobs              int
	verif, repo       string
	jobTmo            time.Duration
	failFastAfter     int
	skipped           int
	keep              bool
	noReplay          bool
	seed              int64
	choices           string
}

func checkMain(args []string) int {
	fs := flag.NewFlagSet("check", flag.ExitOnError)
	var o checkOpts
	fs.StringVar(&o.prop, "prop", "", "property id")
	fs.StringVar(&o.tier, "tier", "quick", "quick|thorough")
	fs.StringVar(&o.match, "match", "", "regexp on harness names")
	fs.IntVar(&o.jobs, "j", 0, "parallel workers")
	fs.StringVar(&o.verif, "verif", "/verif", "verification directory")
	fs.StringVar(&o.repo, "repo", "/repo", "repository under test")
	fs.DurationVar(&o.jobTmo, "jobtmo", 0, "per job wall limit")
	fs.IntVar(&o.failFastAfter, "failfast", 6, "stop starting jobs after this many jobs with counterexample candidates (0: never)")
	fs.BoolVar(&o.keep, "keep", false, "keep temp dir")
	fs.StringVar(&o.choices, "choices", "", "comma separated initial choice vector (debugging)")
	fs.BoolVar(&o.noReplay, "noreplay", false, "skip native replay (debugging only; never exits 0/1)")
	fs.Parse(args)
	if o.prop == "" {
		fatal("check: -prop required")
	}
	if v := os.Getenv("VERIF_TIER"); v != "" && !flagSet(fs, "tier") {
		o.tier = v
	}
	o.seed = 1
	if v := os.Getenv("VERIF_SEED"); v != "" {
		if x, err := strconv.ParseInt(v, 10, 64); err == nil {
			o.seed = x
		}
	}
	if o.jobs == 0 {
		o.jobs = runtime.NumCPU()
		if v := os.Getenv("GOSYM_JOBS"); v != "" {
			o.jobs, _ = strconv.Atoi(v)
		}
	}
	if o.jobTmo == 0 {
		o.jobTmo = 20 * time.Minute
		if o.tier == "thorough" {
			o.jobTmo = 90 * time.Minute
		}
	}
	return runCheck(&o)
}

func flagSet(fs *flag.FlagSet, name string) bool {
	set := false
	fs.Visit(func(f *flag.Flag) {
		if f.Name == name {
			set = true
		}
	})
	return set
}

type harnessInfo struct {
	name   string
	pkgDir string
}

func runCheck(o *checkOpts) int {
	t0 := time.Now()
	tierN := 0
	if o.tier == "thorough" {
		tierN = 1
	}
	hfs := scanHarness(o.verif, o.repo)
	var hs []harnessInfo
	pkgSet := map[string]bool{}
	var re *regexp.Regexp
	if o.match != "" {
		re = regexp.MustCompile(o.match)
	}
	for _, hf := range hfs {
		for _, f := range hf.Funcs {
			if propOf(f) != o.prop {
				continue
			}
			if re != nil && !re.MatchString(f) {
				continue
			}
			hs = append(hs, harnessInfo{f, hf.PkgDir})
			pkgSet[hf.PkgDir] = true
		}
	}
	if len(hs) == 0 {
		fmt.Printf("gosym: no harness for %s\n", o.prop)
		return 2
	}
	var pkgDirs []string
	for d := range pkgSet {
		pkgDirs = append(pkgDirs, d)
	}
	sort.Strings(pkgDirs)
	known := readKnown(filepath.Join(o.verif, "KNOWN_FINDINGS.txt"))
	tmp, err := os.MkdirTemp("", "gosym-")
	if err != nil {
		fatal("%v", err)
	}
	if !o.keep {
		defer os.RemoveAll(tmp)
	}
	cfg := WorkerCfg{VerifDir: o.verif, Repo: o.repo, PkgDirs: pkgDirs, Tier: tierN, Known: known.ids, KnownSites: known.sites, SolverPar: 6, ExecBudgetS: int(o.jobTmo.Seconds()) / 5}
	if v := os.Getenv("GOSYM_SOLVER_PAR"); v != "" {
		cfg.SolverPar, _ = strconv.Atoi(v)
	}
	if tierN == 1 {
		cfg.TmoMs = 180000
	} else {
		cfg.TmoMs = 60000
	}
	if v := os.Getenv("GOSYM_TMO_MS"); v != "" {
		cfg.TmoMs, _ = strconv.Atoi(v)
	}
	cfgPath := filepath.Join(tmp, "worker.json")
	writeJSON(cfgPath, cfg)
	self, _ := os.Executable()

	// ---- job scheduling
	var mu sync.Mutex
	cond := sync.NewCond(&mu)
	var queue []Job
	pending := 0
	var results []JobResult
	var initChoices []int
	if o.choices != "" {
		for _, f := range strings.Split(o.choices, ",") {
			v, _ := strconv.Atoi(strings.TrimSpace(f))
			initChoices = append(initChoices, v)
		}
	}
	for _, h := range hs {
		queue = append(queue, Job{Harness: h.name, Choices: initChoices})
		pending++
	}
	fatalErr := ""
	nworkers := o.jobs
	var wg sync.WaitGroup
	started := 0
	// fail fast: once failFastAfter jobs have produced counterexample candidates, no further jobs
	// are started and running ones are aborted (a breaking change often makes many other jobs
	// explode); the verdict needs one replay-confirmed counterexample only
	violJobs, stopEarly := 0, false
	live := map[*workerProc]bool{}
	spawn := func() {
		started++
		wg.Add(1)
		go func() {
			defer wg.Done()
			var w *workerProc
			defer func() {
				if w != nil {
					w.stop()
				}
			}()
			for {
				mu.Lock()
				for len(queue) == 0 && pending > 0 && fatalErr == "" {
					cond.Wait()
				}
				if pending == 0 || fatalErr != "" {
					mu.Unlock()
					return
				}
				job := queue[0]
				queue = queue[1:]
				mu.Unlock()
				if w == nil {
					var err error
					w, err = startWorker(self, cfgPath)
					if err != nil {
						mu.Lock()
						fatalErr = err.Error()
						cond.Broadcast()
						mu.Unlock()
						return
					}
					mu.Lock()
					live[w] = true
					mu.Unlock()
				}
				res := runOnWorker(w, job, o.jobTmo)
				if res.Error != "" && strings.HasPrefix(res.Error, "worker:") {
					mu.Lock()
					delete(live, w)
					mu.Unlock()
					w.stop()
					w = nil
				}
				mu.Lock()
				if stopEarly && strings.HasPrefix(res.Error, "worker:") {
					// aborted by the early stop
					o.skipped++
					pending--
					cond.Broadcast()
					mu.Unlock()
					continue
				}
				if res.Split == nil && hasViolationCandidate(&res) && o.failFastAfter > 0 {
					violJobs++
					if violJobs >= o.failFastAfter && !stopEarly {
						stopEarly = true
						o.skipped += len(queue)
						pending -= len(queue)
						queue = nil
						for lw := range live {
							if lw != w {
								lw.kill()
							}
						}
					}
				}
				if stopEarly && res.Split != nil {
					o.skipped++
					res.Split = nil
					pending--
					cond.Broadcast()
					mu.Unlock()
					continue
				}
				if res.Split != nil {
					for v := res.Split.Lo; v <= res.Split.Hi; v++ {
						ch := append(append([]int(nil), job.Choices...), v)
						queue = append(queue, Job{Harness: job.Harness, Choices: ch})
						pending++
					}
				} else {
					results = append(results, res)
					if os.Getenv("GOSYM_PROGRESS") != "" {
						fmt.Fprintf(os.Stderr, "[%6.1fs] %s %v: %d obls exec %.1fs solve %.1fs %s\n", time.Since(t0).Seconds(), res.Harness, res.Choices, len(res.Obls), res.Stats.ExecS, res.Stats.SolveS, res.Error)
					}
				}
				pending--
				cond.Broadcast()
				mu.Unlock()
			}
		}()
	}
	for i := 0; i < nworkers; i++ {
		spawn()
	}
	wg.Wait()
	if fatalErr != "" {
		fmt.Printf("gosym: %s\n", fatalErr)
		return 2
	}
	sort.Slice(results, func(i, j int) bool {
		if results[i].Harness != results[j].Harness {
			return results[i].Harness < results[j].Harness
		}
		return fmt.Sprint(results[i].Choices) < fmt.Sprint(results[j].Choices)
	})
	return report(o, tierN, known, results, hs, tmp, t0)
}

func hasViolationCandidate(r *JobResult) bool {
	for i := range r.Obls {
		ob := &r.Obls[i]
		if ob.Status != "sat" || ob.Witness || ob.Kind == "reach" || ob.Kind == "vacuity" {
			continue
		}
		if (ob.Kind == "unwind" || ob.Kind == "alloc") && !r.UnwindV {
			continue
		}
		return true
	}
	return false
}

func runOnWorker(w *workerProc, job Job, tmo time.Duration) JobResult {
	b, _ := json.Marshal(job)
	if _, err := w.in.Write(append(b, '\n')); err != nil {
		return JobResult{Harness: job.Harness, Choices: job.Choices, Error: "worker: write failed: " + err.Error()}
	}
	type lineRes struct {
		line string
		err  error
	}
	ch := make(chan lineRes, 1)
	go func() {
		l, err := w.out.ReadString('\n')
		ch <- lineRes{l, err}
	}()
	select {
	case lr := <-ch:
		if lr.err != nil {
			return JobResult{Harness: job.Harness, Choices: job.Choices, Error: "worker: died: " + lr.err.Error()}
		}
		var res JobResult
		if err := json.Unmarshal([]byte(lr.line), &res); err != nil {
			return JobResult{Harness: job.Harness, Choices: job.Choices, Error: "worker: bad result: " + err.Error()}
		}
		return res
	case <-time.After(tmo):
		return JobResult{Harness: job.Harness, Choices: job.Choices, Error: fmt.Sprintf("worker: job exceeded %s", tmo)}
	}
}

// ---------- reporting, replay, evidence

type candidate struct {
	job   *JobResult
	obl   *OblResult
	path  string
	class string // violation | known | witness
}

func vecHash(h string, choices []int, m map[string]uint64, extra string) string {
	var ks []string
	for k := range m {
		ks = append(ks, k)
	}
	sort.Strings(ks)
	hh := sha1.New()
	fmt.Fprintf(hh, "%s|%v|%s|", h, choices, extra)
	for _, k := range ks {
		fmt.Fprintf(hh, "%s=%d,", k, m[k])
	}
	return fmt.Sprintf("%x", hh.Sum(nil))[:12]
}

type replayVector struct {
	Harness string            `json:"harness"`
	Choices []int             `json:"choices"`
	Tier    int               `json:"tier"`
	Vars    map[string]uint64 `json:"vars"`
	Known   []string          `json:"known"`
	Expect  string            `json:"expect"`
	Msg     string            `json:"msg"`
	Site    string            `json:"site"`
	Prop    string            `json:"property"`
}

type nativeResult struct {
	File       string            `json:"file"`
	Harness    string            `json:"harness"`
	Outcome    string            `json:"outcome"`
	Detail     string            `json:"detail"`
	Failed     []string          `json:"failed"`
	Reached    []string          `json:"reached"`
	Observed   map[string]uint64 `json:"observed"`
	KnownHit   []string          `json:"known_hit"`
	PanicKnown string            `json:"panic_known"`
}

func report(o *checkOpts, tierN int, known *knownFile, results []JobResult, hs []harnessInfo, tmp string, t0 time.Time) int {
	pkgOf := map[string]string{}
	for _, h := range hs {
		pkgOf[h.name] = h.pkgDir
	}
	var knownIDs []string
	for id := range known.ids {
		knownIDs = append(knownIDs, id)
	}
	sort.Strings(knownIDs)
	exit := 0
	var problems []string
	var cands []*candidate
	nObl, nDis, nUnknown, nSat := 0, 0, 0, 0
	nontrivial := 0
	var totals JobStats
	var sstats SolverStats
	sstats.BySolver, sstats.TimeBy = map[string]int{}, map[string]float64{}
	funcs := map[string]bool{}
	var samples []interface{}
	siteLive := map[string]bool{}
	siteDead := map[string]string{}
	for i := range results {
		r := &results[i]
		if r.Error != "" {
			problems = append(problems, fmt.Sprintf("ENGINE-ERROR %s %v: %s", r.Harness, r.Choices, firstLine(r.Error)))
			exit = 2
			continue
		}
		if r.Incomplete != "" {
			problems = append(problems, fmt.Sprintf("INCOMPLETE %s %v: %s", r.Harness, r.Choices, r.Incomplete))
			exit = 2
		}
		totals.Instrs += r.Stats.Instrs
		totals.States += r.Stats.States
		totals.Forks += r.Stats.Forks
		totals.Merges += r.Stats.Merges
		totals.Terms += r.Stats.Terms
		totals.FeasCalls += r.Stats.FeasCalls
		totals.ExecS += r.Stats.ExecS
		totals.SolveS += r.Stats.SolveS
		totals.Paths += r.Stats.Paths
		if r.Stats.Inputs > totals.Inputs {
			totals.Inputs = r.Stats.Inputs
		}
		sstats.Queries += r.Solver.Queries
		sstats.Sat += r.Solver.Sat
		sstats.Unsat += r.Solver.Unsat
		sstats.Unknown += r.Solver.Unknown
		sstats.TimeS += r.Solver.TimeS
		sstats.CacheHits += r.Solver.CacheHits
		if r.Solver.MaxQueryS > sstats.MaxQueryS {
			sstats.MaxQueryS = r.Solver.MaxQueryS
		}
		for k, v := range r.Solver.BySolver {
			sstats.BySolver[k] += v
		}
		for k, v := range r.Solver.TimeBy {
			sstats.TimeBy[k] += v
		}
		for _, f := range r.Funcs {
			funcs[f] = true
		}
		reached := false
		for j := range r.Obls {
			ob := &r.Obls[j]
			switch ob.Kind {
			case "reach":
				if ob.Status == "sat" {
					reached = true
					cands = append(cands, &candidate{job: r, obl: ob, class: "witness"})
				} else if r.Incomplete != "" {
					// not reached within the budget: says nothing
				} else if ob.Status == "unsat" {
					problems = append(problems, fmt.Sprintf("VACUOUS %s %v: reach tag %q is unreachable", r.Harness, r.Choices, ob.Msg))
					exit = 2
				} else {
					problems = append(problems, fmt.Sprintf("INCONCLUSIVE %s %v: reach tag %q undecided", r.Harness, r.Choices, ob.Msg))
					exit = 2
				}
			case "vacuity":
				// an assertion site must be reachable in at least one job (shape) of its harness
				k := r.Harness + "|" + ob.Site + "|" + ob.Msg
				if r.Incomplete != "" && ob.Status != "sat" {
					continue
				}
				if ob.Status == "sat" {
					siteLive[k] = true
				} else if _, seen := siteDead[k]; !seen {
					siteDead[k] = fmt.Sprintf("VACUOUS %s: assertion %q at %s is never reached in any job (%s)", r.Harness, ob.Msg, ob.Site, ob.Status)
				}
			default:
				if ob.Witness {
					cands = append(cands, &candidate{job: r, obl: ob, class: "known"})
					continue
				}
				nObl++
				if !ob.Trivial {
					nontrivial++
				}
				switch ob.Status {
				case "unsat":
					nDis++
				case "sat":
					nSat++
					if (ob.Kind == "unwind" || ob.Kind == "alloc") && !r.UnwindV {
						problems = append(problems, fmt.Sprintf("UNWIND-EXCEEDED %s %v: %s", r.Harness, r.Choices, ob.Msg))
						exit = 2
					} else {
						cands = append(cands, &candidate{job: r, obl: ob, class: "violation"})
					}
				default:
					nUnknown++
					problems = append(problems, fmt.Sprintf("INCONCLUSIVE %s %v: %s %q undecided", r.Harness, r.Choices, ob.Kind, ob.Msg))
					exit = 2
				}
				if len(samples) < 6 && ob.Status == "unsat" && !ob.Trivial {
					samples = append(samples, map[string]interface{}{"harness": r.Harness, "choices": r.Choices, "obligation": ob.Kind + ": " + ob.Msg, "site": ob.Site, "verdict": "unsat (holds for all values of the symbolic inputs)", "solver": ob.Solver, "secs": ob.Secs, "symbolic_inputs": r.Stats.Inputs})
				}
			}
		}
		if !reached && r.Error == "" && r.Incomplete == "" {
			hasReach := false
			for _, ob := range r.Obls {
				if ob.Kind == "reach" {
					hasReach = true
				}
			}
			if !hasReach {
				problems = append(problems, fmt.Sprintf("VACUOUS %s %v: harness has no reachable vrt.Reach", r.Harness, r.Choices))
				exit = 2
			}
		}
	}

	if o.skipped > 0 {
		problems = append(problems, fmt.Sprintf("STOPPED-EARLY after %d jobs with counterexample candidates: %d jobs not run or aborted (nothing is claimed for them)", o.failFastAfter, o.skipped))
		if exit == 0 {
			exit = 2
		}
		siteDead = map[string]string{} // vacuity of assertion sites cannot be judged on a partial run
	}
	var deadKeys []string
	for k := range siteDead {
		if !siteLive[k] {
			deadKeys = append(deadKeys, k)
		}
	}
	sort.Strings(deadKeys)
	for _, k := range deadKeys {
		problems = append(problems, siteDead[k])
		exit = 2
	}

	// ---- write replay vectors
	rng := rand.New(rand.NewSource(o.seed))
	var wit []*candidate
	var must []*candidate
	for _, c := range cands {
		if c.class == "witness" {
			wit = append(wit, c)
		} else {
			must = append(must, c)
		}
	}
	rng.Shuffle(len(wit), func(i, j int) { wit[i], wit[j] = wit[j], wit[i] })
	maxWit := 120
	if tierN == 1 {
		maxWit = 400
	}
	if len(wit) > maxWit {
		wit = wit[:maxWit]
	}
	// at most a few violation candidates per (harness,msg) are replayed
	perKey := map[string]int{}
	var replayList []*candidate
	for _, c := range must {
		k := c.class + "|" + c.job.Harness + "|" + c.obl.Kind + "|" + c.obl.Msg + "|" + c.obl.Site
		perKey[k]++
		if perKey[k] > 3 {
			continue
		}
		replayList = append(replayList, c)
	}
	replayList = append(replayList, wit...)
	replayDir := filepath.Join(o.verif, "replays", o.prop)
	for _, c := range replayList {
		v := replayVector{Harness: c.job.Harness, Choices: c.job.Choices, Tier: tierN, Vars: c.obl.Model, Known: knownIDs, Msg: c.obl.Msg, Site: c.obl.Site, Prop: o.prop}
		switch c.class {
		case "witness":
			v.Expect = "ok"
			c.path = filepath.Join(tmp, "wit", fmt.Sprintf("%s-%s.json", c.job.Harness, vecHash(c.job.Harness, c.job.Choices, c.obl.Model, c.obl.Msg)))
		default:
			v.Expect = c.obl.Kind
			c.path = filepath.Join(replayDir, fmt.Sprintf("%s-%s.json", c.job.Harness, vecHash(c.job.Harness, c.job.Choices, c.obl.Model, c.obl.Msg)))
		}
		writeJSON(c.path, v)
	}
	validated := 0
	var violations []string
	var knownLines []string
	if o.noReplay {
		if exit == 0 {
			exit = 2
		}
		problems = append(problems, "replay skipped (-noreplay)")
	} else if len(replayList) > 0 {
		nat, err := nativeReplay(o, tmp, replayList, pkgOf)
		if err != nil {
			problems = append(problems, "REPLAY-ERROR "+err.Error())
			exit = 2
		}
		knownSeen := map[string]bool{}
		for _, c := range replayList {
			nr, ok := nat[c.path]
			if !ok {
				problems = append(problems, fmt.Sprintf("REPLAY-MISSING %s (%s)", c.path, c.class))
				exit = 2
				continue
			}
			switch c.class {
			case "witness":
				okRun := nr.Outcome == "ok"
				// a witness may run into a listed known finding
				if !okRun && (len(nr.KnownHit) > 0 || nr.PanicKnown != "") && (nr.Outcome == "ok" || nr.Outcome == "panic") {
					okRun = true
				}
				if nr.Outcome == "panic" && !okRun {
					for key := range known.sites {
						if strings.HasPrefix(key, c.job.Harness+"|") {
							okRun = true // a site-keyed known panic may be hit by the witness
						}
					}
				}
				// failures the engine reported itself (sat obligations of the same job) are consistent, not a mismatch
				if !okRun && (nr.Outcome == "assert" || nr.Outcome == "panic" || nr.Outcome == "hang") {
					satMsgs := map[string]bool{}
					satPanic := false
					for _, ob := range c.job.Obls {
						if ob.Status == "sat" && ob.Kind == "assert" {
							satMsgs[ob.Msg] = true
						}
						if ob.Status == "sat" && ob.Kind != "assert" && ob.Kind != "reach" {
							satPanic = true
						}
					}
					if nr.Outcome == "assert" {
						okRun = true
						for _, f := range nr.Failed {
							if !satMsgs[f] {
								okRun = false
							}
						}
					} else {
						okRun = satPanic
					}
				}
				tagOK := false
				for _, t := range nr.Reached {
					if t == c.obl.Msg {
						tagOK = true
					}
				}
				obsOK := true
				for k, v := range c.obl.Observed {
					if nv, ok := nr.Observed[k]; !ok || nv != v {
						obsOK = false
						problems = append(problems, fmt.Sprintf("ENGINE-MISMATCH %s %v: observed %s engine=%d native=%d", c.job.Harness, c.job.Choices, k, v, nv))
					}
				}
				if nr.Outcome == "ok" && tagOK && obsOK {
					validated++
				} else if okRun && obsOK {
					validated++
				} else {
					problems = append(problems, fmt.Sprintf("ENGINE-MISMATCH %s %v: witness for %q replays natively as %s (%s)", c.job.Harness, c.job.Choices, c.obl.Msg, nr.Outcome, firstLine(nr.Detail)))
					keepVector(c, replayDir)
					exit = 2
				}
			case "violation":
				confirmed := false
				switch c.obl.Kind {
				case "assert":
					for _, f := range nr.Failed {
						if f == c.obl.Msg {
							confirmed = true
						}
					}
				case "panic":
					confirmed = nr.Outcome == "panic"
				case "unwind", "alloc":
					confirmed = nr.Outcome == "hang" || nr.Outcome == "panic"
				}
				if confirmed {
					violations = append(violations, fmt.Sprintf("VIOLATION property=%s replay=%s", o.prop, c.path))
					fmt.Printf("  violated: %s %v %s: %s [%s]\n", c.job.Harness, c.job.Choices, c.obl.Kind, c.obl.Msg, c.obl.Site)
					if nr.Outcome == "panic" {
						fmt.Printf("  native: %s\n", firstLine(nr.Detail))
					}
				} else {
					problems = append(problems, fmt.Sprintf("ENGINE-MISMATCH %s %v: %s %q is sat symbolically but replays natively as %s (%s) vector=%s", c.job.Harness, c.job.Choices, c.obl.Kind, c.obl.Msg, nr.Outcome, firstLine(nr.Detail), c.path))
					if exit == 0 {
						exit = 2
					}
				}
			case "known":
				confirmed := false
				if c.obl.Kind == "assert" {
					for _, h := range nr.KnownHit {
						if strings.HasPrefix(h, c.obl.KnownID+": ") {
							confirmed = true
						}
					}
				} else {
					confirmed = nr.Outcome == "panic" || nr.Outcome == "hang"
				}
				if confirmed {
					if !knownSeen[c.obl.KnownID] {
						knownSeen[c.obl.KnownID] = true
						knownLines = append(knownLines, fmt.Sprintf("KNOWN-FINDING: property=%s %s: %s", o.prop, c.obl.KnownID, known.desc[c.obl.KnownID]))
					}
					os.Remove(c.path)
				} else {
					problems = append(problems, fmt.Sprintf("ENGINE-MISMATCH %s %v: known-finding witness %s does not reproduce natively (%s)", c.job.Harness, c.job.Choices, c.obl.KnownID, nr.Outcome))
					if exit == 0 {
						exit = 2
					}
				}
			}
		}
	}
	sort.Strings(knownLines)
	for _, l := range knownLines {
		fmt.Println(l)
	}
	for _, p := range problems {
		fmt.Println(p)
	}
	seenV := map[string]bool{}
	for _, v := range violations {
		if !seenV[v] {
			seenV[v] = true
			fmt.Println(v)
		}
	}
	if len(violations) > 0 {
		exit = 1
	}
	// ---- evidence
	for _, c := range cands {
		if c.class == "witness" && len(samples) < 8 && len(c.obl.Model) > 0 {
			small := map[string]uint64{}
			n := 0
			var ks []string
			for k := range c.obl.Model {
				ks = append(ks, k)
			}
			sort.Strings(ks)
			for _, k := range ks {
				if n >= 12 {
					break
				}
				small[k] = c.obl.Model[k]
				n++
			}
			samples = append(samples, map[string]interface{}{"harness": c.job.Harness, "choices": c.job.Choices, "reach_witness_inputs_excerpt": small, "replayed_natively": !o.noReplay})
			break
		}
	}
	if len(samples) == 0 {
		samples = append(samples, map[string]interface{}{"note": "no non-trivial obligation sampled", "jobs": len(results)})
	}
	var fl []string
	for f := range funcs {
		fl = append(fl, f)
	}
	sort.Strings(fl)
	var repoFuncs []string
	for _, f := range fl {
		if strings.Contains(f, "Comcast/gots") && !strings.Contains(f, "VH_") && !strings.Contains(f, "zzverif") {
			repoFuncs = append(repoFuncs, f)
		}
	}
	var hnames []string
	for _, h := range hs {
		hnames = append(hnames, h.name)
	}
	ev := map[string]interface{}{
		"property_id": o.prop,
		"tier":        o.tier,
		"seed":        o.seed,
		"level":       "model_checking",
		"wall_s":      round2(time.Since(t0).Seconds()),
		"violations":  len(seenV),
		"coverage": map[string]interface{}{
			"states":                        totals.States + len(results),
			"transitions":                   totals.Instrs,
			"traces_validated_against_impl": validated,
			"samples":                       samples,
			"obligations":                   nObl,
			"discharged":                    nDis,
			"unknown":                       nUnknown,
			"sat":                           nSat,
			"evaluations":                   nObl,
			"distinct_nontrivial":           nontrivial,
			"rule":                          "one evaluation = one proof obligation (assertion, implicit Go panic check, unwinding/allocation assertion) generated by symbolic execution of the real code and decided by an SMT solver over all values of the symbolic inputs; non-trivial = not already folded to a constant by the term simplifier",
			"jobs":                          len(results),
			"harnesses":                     hnames,
			"functions_encoded":             repoFuncs,
			"functions_encoded_total":       len(fl),
			"merged_states":                 totals.States,
			"forks":                         totals.Forks,
			"merges":                        totals.Merges,
			"paths_at_exit":                 totals.Paths,
			"max_symbolic_inputs_per_job":   totals.Inputs,
			"feasibility_queries":           totals.FeasCalls,
			"exec_time_s":                   round2(totals.ExecS),
			"solver":                        sstats,
			"solver_time_s":                 round2(sstats.TimeS),
			"known_findings_witnessed":      knownLines,
			"problems":                      problems,
			"exhaustive":                    false,
			"explanation":                   "bounded symbolic execution of the real Go SSA of /repo (harness injected by overlay); bounds and stubs are listed under assumptions and in DESIGN.md",
		},
		"assumptions": assumptionsFor(o.prop, o.verif),
	}
	writeJSON(filepath.Join(o.verif, "evidence", o.prop+".json"), ev)
	status := map[int]string{0: "PASS", 1: "VIOLATION", 2: "INCONCLUSIVE"}[exit]
	fmt.Printf("gosym %s %s: %s  jobs=%d obligations=%d discharged=%d sat=%d unknown=%d validated-replays=%d instrs=%d solver=%.1fs wall=%.1fs\n",
		o.prop, o.tier, status, len(results), nObl, nDis, nSat, nUnknown, validated, totals.Instrs, sstats.TimeS, time.Since(t0).Seconds())
	return exit
}

func keepVector(c *candidate, replayDir string) {
	data, err := os.ReadFile(c.path)
	if err != nil {
		return
	}
	os.MkdirAll(replayDir, 0755)
	os.WriteFile(filepath.Join(replayDir, "mismatch-"+filepath.Base(c.path)), data, 0644)
}

func round2(f float64) float64 { return float64(int(f*100+0.5)) / 100 }

func firstLine(s string) string {
	if i := strings.Index(s, "\n"); i >= 0 {
		return s[:i]
	}
	return s
}

// assumptionsFor reads /verif/bounds/<prop>.txt (one assumption / bound per line).
func assumptionsFor(prop, verif string) []string {
	out := []string{
		"trusted base: go/types + go/ssa front end, the gosym executor semantics and term simplifier, SMT-LIB printers, z3 5.1.0 / z3 4.8.12 / cvc5 1.0, the harness reference models and the std stubs listed in DESIGN.md section 1.5",
		"verdicts are bounded: they hold for all values of the symbolic inputs within the enumerated shapes and loop unwinding limits stated in DESIGN.md for this property",
	}
	data, err := os.ReadFile(filepath.Join(verif, "bounds", prop+".txt"))
	if err == nil {
		for _, l := range strings.Split(string(data), "\n") {
			if l = strings.TrimSpace(l); l != "" {
				out = append(out, l)
			}
		}
	}
	return out
}

// nativeReplay compiles the harness natively (go test -overlay) and runs the vectors.
func nativeReplay(o *checkOpts, tmp string, list []*candidate, pkgOf map[string]string) (map[string]*nativeResult, error) {
	hfs := scanHarness(o.verif, o.repo)
	byPkg := map[string][]*candidate{}
	for _, c := range list {
		p := pkgOf[c.job.Harness]
		byPkg[p] = append(byPkg[p], c)
	}
	out := map[string]*nativeResult{}
	var pkgs []string
	for p := range byPkg {
		pkgs = append(pkgs, p)
	}
	sort.Strings(pkgs)
	for _, p := range pkgs {
		repl := map[string]string{}
		var fnNames []string
		pkgName := ""
		for _, hf := range hfs {
			if hf.PkgDir != p {
				continue
			}
			repl[hf.Virtual] = hf.Real
			fnNames = append(fnNames, hf.Funcs...)
			if pkgName == "" {
				data, _ := os.ReadFile(hf.Real)
				if m := regexp.MustCompile(`(?m)^package (\w+)`).FindStringSubmatch(string(data)); m != nil {
					pkgName = m[1]
				}
			}
		}
		repl[filepath.Join(o.repo, "zzverif", "vrt", "vrt.go")] = filepath.Join(o.verif, "harness", "vrt_native", "vrt.go")
		var sb strings.Builder
		fmt.Fprintf(&sb, "package %s\n\nimport (\n\t\"testing\"\n\t\"%s/zzverif/vrt\"\n)\n\nfunc TestVerifReplay(t *testing.T) {\n\tvrt.RunReplays(map[string]func(){\n", pkgName, modPath)
		sort.Strings(fnNames)
		for _, f := range fnNames {
			fmt.Fprintf(&sb, "\t\t%q: %s,\n", f, f)
		}
		sb.WriteString("\t})\n}\n")
		safe := strings.ReplaceAll(p, "/", "__")
		if p == "." {
			safe = "root"
		}
		testFile := filepath.Join(tmp, "replay_"+safe+"_test.go")
		os.WriteFile(testFile, []byte(sb.String()), 0644)
		repl[filepath.Join(o.repo, p, "zz_verif_replay_test.go")] = testFile
		ovPath := filepath.Join(tmp, "overlay_"+safe+".json")
		writeJSON(ovPath, map[string]interface{}{"Replace": repl})
		remaining := byPkg[p]
		outPath := filepath.Join(tmp, "replay_"+safe+".out")
		for round := 0; round < 50 && len(remaining) > 0; round++ {
			listPath := filepath.Join(tmp, "replay_"+safe+".list")
			var lb strings.Builder
			for _, c := range remaining {
				lb.WriteString(c.path + "\n")
			}
			os.WriteFile(listPath, []byte(lb.String()), 0644)
			os.Remove(outPath)
			cmd := exec.Command("go", "test", "-vet=off", "-count=1", "-timeout", "30m", "-overlay", ovPath, "-run", "^TestVerifReplay$", "./"+p)
			cmd.Dir = o.repo
			cmd.Env = append(goEnv(), "GOSYM_REPLAY_LIST="+listPath, "GOSYM_REPLAY_OUT="+outPath)
			outb, err := cmd.CombinedOutput()
			data, rerr := os.ReadFile(outPath)
			if rerr != nil {
				return out, fmt.Errorf("native replay of %s produced no output: %v\n%s", p, err, string(outb))
			}
			got := 0
			for _, l := range strings.Split(string(data), "\n") {
				if strings.TrimSpace(l) == "" {
					continue
				}
				var nr nativeResult
				if json.Unmarshal([]byte(l), &nr) == nil {
					out[nr.File] = &nr
					got++
				}
			}
			var rest []*candidate
			for _, c := range remaining {
				if _, ok := out[c.path]; !ok {
					rest = append(rest, c)
				}
			}
			if got == 0 {
				// the process died before writing anything for the first vector (fatal error, OOM): count as panic
				if len(rest) > 0 {
					out[rest[0].path] = &nativeResult{File: rest[0].path, Outcome: "panic", Detail: "native process died: " + lastLines(string(outb), 3)}
					rest = rest[1:]
				}
			}
			remaining = rest
		}
	}
	return out, nil
}

func lastLines(s string, n int) string {
	ls := strings.Split(strings.TrimSpace(s), "\n")
	if len(ls) > n {
		ls = ls[len(ls)-n:]
	}
	return strings.Join(ls, " / ")
}
