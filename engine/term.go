package main

import (
	"fmt"
	"math/bits"
	"os"
	"strings"
)

// Term is a hash-consed bit-vector / bool term. w==0 => Bool.
// Every term carries a cheap unsigned interval [lo,hi] (bit-vectors only) that
// is used to fold comparisons and to bound symbolic indices.
type Term struct {
	op     string
	w      int
	args   []*Term
	val    uint64 // const value, or extract hi<<8|lo, or ext amount
	name   string
	id     int
	lo, hi uint64
}

type termKey struct {
	op         string
	w          int
	val        uint64
	name       string
	a0, a1, a2 int
}

type TermBank struct {
	tab    map[termKey]*Term
	nextID int
	T, F   *Term
}

var tb *TermBank

func resetTerms() {
	tb = &TermBank{tab: map[termKey]*Term{}}
	tb.T = mk("true", 0, 0, "")
	tb.F = mk("false", 0, 0, "")
}

func init() { resetTerms() }

func True() *Term  { return tb.T }
func False() *Term { return tb.F }

func mask(w int) uint64 {
	if w >= 64 {
		return ^uint64(0)
	}
	return (uint64(1) << uint(w)) - 1
}

func mk(op string, w int, val uint64, name string, args ...*Term) *Term {
	k := termKey{op: op, w: w, val: val, name: name, a0: -1, a1: -1, a2: -1}
	if len(args) > 3 {
		// n-ary application: fold ids into the name
		var sb strings.Builder
		sb.WriteString(name)
		for _, a := range args {
			fmt.Fprintf(&sb, ",%d", a.id)
		}
		k.name = sb.String()
	} else {
		if len(args) > 0 {
			k.a0 = args[0].id
		}
		if len(args) > 1 {
			k.a1 = args[1].id
		}
		if len(args) > 2 {
			k.a2 = args[2].id
		}
	}
	if t, ok := tb.tab[k]; ok {
		return t
	}
	t := &Term{op: op, w: w, args: args, val: val, name: name, id: tb.nextID}
	tb.nextID++
	if w > 0 {
		t.lo, t.hi = bounds(t)
	}
	tb.tab[k] = t
	return t
}

// bounds computes a sound unsigned interval for a freshly built term.
func bounds(t *Term) (uint64, uint64) {
	m := mask(t.w)
	switch t.op {
	case "const":
		return t.val, t.val
	case "zext":
		return t.args[0].lo, t.args[0].hi
	case "ite":
		a, b := t.args[1], t.args[2]
		lo, hi := a.lo, a.hi
		if b.lo < lo {
			lo = b.lo
		}
		if b.hi > hi {
			hi = b.hi
		}
		return lo, hi
	case "bvand":
		hi := t.args[0].hi
		if t.args[1].hi < hi {
			hi = t.args[1].hi
		}
		return 0, hi
	case "bvor", "bvxor":
		h := t.args[0].hi | t.args[1].hi
		if h == 0 {
			return 0, 0
		}
		n := bits.Len64(h)
		lo := uint64(0)
		if t.op == "bvor" {
			lo = t.args[0].lo
			if t.args[1].lo > lo {
				lo = t.args[1].lo
			}
		}
		return lo, mask(n) & m
	case "bvadd":
		a, b := t.args[0], t.args[1]
		s, c := bits.Add64(a.hi, b.hi, 0)
		if c == 0 && s <= m {
			return a.lo + b.lo, s
		}
		// x + (-k) with x >= k never wraps below zero
		if b.isConst() && b.val != 0 {
			k := (-b.val) & m
			if k <= a.lo && k < uint64(1)<<uint(t.w-1) {
				return a.lo - k, a.hi - k
			}
		}
	case "bvsub":
		a, b := t.args[0], t.args[1]
		if a.lo >= b.hi {
			return a.lo - b.hi, a.hi - b.lo
		}
	case "bvmul":
		a, b := t.args[0], t.args[1]
		h, l := bits.Mul64(a.hi, b.hi)
		if h == 0 && l <= m {
			return a.lo * b.lo, l
		}
	case "bvlshr":
		if t.args[1].isConst() {
			s := t.args[1].val
			if s >= uint64(t.w) {
				return 0, 0
			}
			return t.args[0].lo >> s, t.args[0].hi >> s
		}
		return 0, t.args[0].hi
	case "bvshl":
		if t.args[1].isConst() {
			s := t.args[1].val
			if s < uint64(t.w) && bits.Len64(t.args[0].hi)+int(s) <= t.w {
				return t.args[0].lo << s, t.args[0].hi << s
			}
		}
	case "bvudiv":
		if t.args[1].lo > 0 {
			return t.args[0].lo / t.args[1].hi, t.args[0].hi / t.args[1].lo
		}
	case "bvurem":
		if t.args[1].lo > 0 {
			h := t.args[1].hi - 1
			if t.args[0].hi < h {
				h = t.args[0].hi
			}
			return 0, h
		}
	case "extract":
		hiB, loB := int(t.val>>8), int(t.val&0xff)
		if loB == 0 && t.args[0].hi <= mask(hiB+1) {
			return t.args[0].lo, t.args[0].hi
		}
	}
	return 0, m
}

func C(w int, v uint64) *Term      { return mk("const", w, v&mask(w), "") }
func Var(w int, name string) *Term { return mk("var", w, 0, name) }

func B(b bool) *Term {
	if b {
		return tb.T
	}
	return tb.F
}
func (t *Term) isConst() bool     { return t.op == "const" }
func (t *Term) isBoolConst() bool { return t.op == "true" || t.op == "false" }
func (t *Term) isTrue() bool      { return t == tb.T }
func (t *Term) isFalse() bool     { return t == tb.F }

func sx(v uint64, w int) int64 {
	if w >= 64 {
		return int64(v)
	}
	if v&(1<<uint(w-1)) != 0 {
		return int64(v | ^mask(w))
	}
	return int64(v)
}

func foldBin(op string, w int, x, y uint64) uint64 {
	var r uint64
	switch op {
	case "bvadd":
		r = x + y
	case "bvsub":
		r = x - y
	case "bvmul":
		r = x * y
	case "bvand":
		r = x & y
	case "bvor":
		r = x | y
	case "bvxor":
		r = x ^ y
	case "bvshl":
		if y >= uint64(w) {
			r = 0
		} else {
			r = x << y
		}
	case "bvlshr":
		if y >= uint64(w) {
			r = 0
		} else {
			r = x >> y
		}
	case "bvashr":
		if y >= uint64(w) {
			y = uint64(w - 1)
		}
		r = uint64(sx(x, w) >> y)
	case "bvudiv":
		if y == 0 {
			r = mask(w)
		} else {
			r = x / y
		}
	case "bvurem":
		if y == 0 {
			r = x
		} else {
			r = x % y
		}
	case "bvsdiv":
		if y == 0 {
			if sx(x, w) < 0 {
				r = 1
			} else {
				r = mask(w)
			}
		} else if sx(y, w) == -1 {
			r = -x
		} else {
			r = uint64(sx(x, w) / sx(y, w))
		}
	case "bvsrem":
		if y == 0 {
			r = x
		} else if sx(y, w) == -1 {
			r = 0
		} else {
			r = uint64(sx(x, w) % sx(y, w))
		}
	default:
		panic(op)
	}
	return r & mask(w)
}

func Bin(op string, a, b *Term) *Term {
	w := a.w
	if a.w != b.w {
		panic(fmt.Sprintf("Bin %s width mismatch %d %d", op, a.w, b.w))
	}
	if a.isConst() && b.isConst() {
		return C(w, foldBin(op, w, a.val, b.val))
	}
	switch op {
	case "bvadd", "bvor", "bvxor":
		if a.isConst() && !b.isConst() {
			a, b = b, a
		}
		if b.isConst() && b.val == 0 {
			return a
		}
		if op == "bvor" && b.isConst() && b.val == mask(w) {
			return b
		}
		if op == "bvor" && a == b {
			return a
		}
		if op == "bvxor" && a == b {
			return C(w, 0)
		}
		// (x + c1) + c2
		if op == "bvadd" && b.isConst() && a.op == "bvadd" && a.args[1].isConst() {
			return Bin("bvadd", a.args[0], C(w, a.args[1].val+b.val))
		}
		if op == "bvadd" && b.isConst() && a.op == "bvsub" && a.args[1].isConst() {
			return Bin("bvadd", a.args[0], C(w, b.val-a.args[1].val))
		}
	case "bvsub":
		if b.isConst() && b.val == 0 {
			return a
		}
		if a == b {
			return C(w, 0)
		}
		if b.isConst() {
			return Bin("bvadd", a, C(w, -b.val))
		}
		// (x + y) - x
		if a.op == "bvadd" {
			if a.args[0] == b {
				return a.args[1]
			}
			if a.args[1] == b {
				return a.args[0]
			}
		}
	case "bvshl", "bvlshr", "bvashr":
		if b.isConst() && b.val == 0 {
			return a
		}
		if a.isConst() && a.val == 0 {
			return a
		}
		if b.isConst() && b.val >= uint64(w) && op != "bvashr" {
			return C(w, 0)
		}
		if op == "bvlshr" && b.isConst() && a.hi>>b.val == 0 {
			return C(w, 0)
		}
		if op == "bvlshr" && b.isConst() && a.op == "zext" {
			in := a.args[0]
			if b.val >= uint64(in.w) {
				return C(w, 0)
			}
			return ZExt(Bin("bvlshr", in, C(in.w, b.val)), w)
		}
		// constant shifts distribute over bitwise operators (keeps known bits visible)
		if b.isConst() && op != "bvashr" && (a.op == "bvor" || a.op == "bvand" || a.op == "bvxor") {
			return Bin(a.op, Bin(op, a.args[0], b), Bin(op, a.args[1], b))
		}
		// (x << s) >> s with x small enough is x
		if op == "bvlshr" && b.isConst() && a.op == "bvshl" && a.args[1] == b && b.val < uint64(w) && bits.Len64(a.args[0].hi)+int(b.val) <= w {
			return a.args[0]
		}
	case "bvand":
		if a.isConst() && !b.isConst() {
			a, b = b, a
		}
		if b.isConst() && b.val == 0 {
			return C(w, 0)
		}
		if a == b {
			return a
		}
		if b.isConst() {
			if b.val == mask(w) {
				return a
			}
			// mask covers every possible bit of a
			if a.hi != mask(w) && bits.Len64(a.hi) <= 64 && b.val&mask(bits.Len64(a.hi)) == mask(bits.Len64(a.hi)) {
				return a
			}
			if a.op == "bvand" && a.args[1].isConst() {
				return Bin("bvand", a.args[0], C(w, a.args[1].val&b.val))
			}
			if a.op == "zext" {
				// mask moves inside the extension (the upper bits are zero anyway)
				in := a.args[0]
				return ZExt(Bin("bvand", in, C(in.w, b.val)), w)
			}
			if a.op == "bvor" {
				return Bin("bvor", Bin("bvand", a.args[0], b), Bin("bvand", a.args[1], b))
			}
			if a.op == "bvshl" && a.args[1].isConst() && a.args[1].val < uint64(w) {
				// (x << s) & m  where m has no bits at or above s -> 0
				if b.val&^mask(int(a.args[1].val)) == 0 {
					return C(w, 0)
				}
			}
		}
	case "bvmul":
		if a.isConst() && !b.isConst() {
			a, b = b, a
		}
		if b.isConst() && b.val == 1 {
			return a
		}
		if b.isConst() && b.val == 0 {
			return C(w, 0)
		}
	case "bvudiv", "bvurem":
		if b.isConst() && b.val == 1 {
			if op == "bvudiv" {
				return a
			}
			return C(w, 0)
		}
		if op == "bvurem" && b.isConst() && b.val != 0 && a.hi < b.val {
			return a
		}
		if op == "bvudiv" && b.isConst() && b.val != 0 && a.hi < b.val {
			return C(w, 0)
		}
	}
	// push arithmetic with a constant through ite with constant leaves (keeps value sets small)
	if b.isConst() && a.op == "ite" && leafConst(a, 4) {
		return Ite(a.args[0], Bin(op, a.args[1], b), Bin(op, a.args[2], b))
	}
	if a.isConst() && b.op == "ite" && leafConst(b, 4) {
		return Ite(b.args[0], Bin(op, a, b.args[1]), Bin(op, a, b.args[2]))
	}
	return mk(op, w, 0, "", a, b)
}

func leafConst(t *Term, depth int) bool {
	if t.isConst() {
		return true
	}
	if t.op == "ite" && depth > 0 {
		return leafConst(t.args[1], depth-1) && leafConst(t.args[2], depth-1)
	}
	return false
}

func Cmp(op string, a, b *Term) *Term { // eq ult ule slt sle
	if a.w != b.w {
		panic(fmt.Sprintf("Cmp %s width mismatch %d %d", op, a.w, b.w))
	}
	if a.w == 0 {
		if op != "eq" {
			panic("bool compare " + op)
		}
		if a == b {
			return tb.T
		}
		if a.isBoolConst() {
			if a == tb.T {
				return b
			}
			return Not(b)
		}
		if b.isBoolConst() {
			if b == tb.T {
				return a
			}
			return Not(a)
		}
		return mk("eq", 0, 0, "", a, b)
	}
	if a.isConst() && b.isConst() {
		switch op {
		case "eq":
			return B(a.val == b.val)
		case "ult":
			return B(a.val < b.val)
		case "ule":
			return B(a.val <= b.val)
		case "slt":
			return B(sx(a.val, a.w) < sx(b.val, b.w))
		case "sle":
			return B(sx(a.val, a.w) <= sx(b.val, b.w))
		}
	}
	if a == b {
		return B(op == "eq" || op == "ule" || op == "sle")
	}
	// signed comparisons on values that are both non-negative are unsigned ones
	if op == "slt" || op == "sle" {
		top := uint64(1) << uint(a.w-1)
		if a.hi < top && b.hi < top {
			if op == "slt" {
				op = "ult"
			} else {
				op = "ule"
			}
		}
	}
	switch op {
	case "eq":
		if a.hi < b.lo || b.hi < a.lo {
			return tb.F
		}
		if a.isConst() && !b.isConst() {
			a, b = b, a
		}
	case "ult":
		if a.hi < b.lo {
			return tb.T
		}
		if a.lo >= b.hi {
			return tb.F
		}
	case "ule":
		if a.hi <= b.lo {
			return tb.T
		}
		if a.lo > b.hi {
			return tb.F
		}
	}
	// compare ite-of-consts with const
	if b.isConst() && a.op == "ite" && leafConst(a, 4) {
		return IteB(a.args[0], Cmp(op, a.args[1], b), Cmp(op, a.args[2], b))
	}
	if a.isConst() && b.op == "ite" && leafConst(b, 4) {
		return IteB(b.args[0], Cmp(op, a, b.args[1]), Cmp(op, a, b.args[2]))
	}
	if op == "eq" && b.isConst() {
		// zext(x) == c  ->  x == c
		if a.op == "zext" {
			return Cmp("eq", a.args[0], C(a.args[0].w, b.val))
		}
	}
	return mk(op, 0, 0, "", a, b)
}

func Not(a *Term) *Term {
	if a == tb.T {
		return tb.F
	}
	if a == tb.F {
		return tb.T
	}
	if a.op == "not" {
		return a.args[0]
	}
	return mk("not", 0, 0, "", a)
}
func And(a, b *Term) *Term {
	if a == tb.F || b == tb.F {
		return tb.F
	}
	if a == tb.T {
		return b
	}
	if b == tb.T {
		return a
	}
	if a == b {
		return a
	}
	if Not(a) == b {
		return tb.F
	}
	return mk("and", 0, 0, "", a, b)
}
func Or(a, b *Term) *Term {
	if a == tb.T || b == tb.T {
		return tb.T
	}
	if a == tb.F {
		return b
	}
	if b == tb.F {
		return a
	}
	if a == b {
		return a
	}
	if Not(a) == b {
		return tb.T
	}
	return mk("or", 0, 0, "", a, b)
}
func IteB(c, a, b *Term) *Term {
	if c == tb.T {
		return a
	}
	if c == tb.F {
		return b
	}
	if a == b {
		return a
	}
	if a == tb.T && b == tb.F {
		return c
	}
	if a == tb.F && b == tb.T {
		return Not(c)
	}
	if a == tb.T {
		return Or(c, b)
	}
	if b == tb.F {
		return And(c, a)
	}
	if a == tb.F {
		return And(Not(c), b)
	}
	if b == tb.T {
		return Or(Not(c), a)
	}
	return mk("ite", 0, 0, "", c, a, b)
}
func Ite(c, a, b *Term) *Term {
	if a.w != b.w {
		panic(fmt.Sprintf("Ite width mismatch %d %d", a.w, b.w))
	}
	if a.w == 0 {
		return IteB(c, a, b)
	}
	if c == tb.T {
		return a
	}
	if c == tb.F {
		return b
	}
	if a == b {
		return a
	}
	if c.op == "not" {
		return Ite(c.args[0], b, a)
	}
	// ite(c, x, ite(c, y, z)) -> ite(c, x, z)
	if b.op == "ite" && b.args[0] == c {
		return Ite(c, a, b.args[2])
	}
	if a.op == "ite" && a.args[0] == c {
		return Ite(c, a.args[1], b)
	}
	return mk("ite", a.w, 0, "", c, a, b)
}
func ZExt(a *Term, w int) *Term {
	if a.w == w {
		return a
	}
	if a.w > w {
		return Extract(a, w-1, 0)
	}
	if a.isConst() {
		return C(w, a.val)
	}
	if a.op == "ite" && leafConst(a, 4) {
		return Ite(a.args[0], ZExt(a.args[1], w), ZExt(a.args[2], w))
	}
	if a.op == "zext" {
		return ZExt(a.args[0], w)
	}
	return mk("zext", w, uint64(w-a.w), "", a)
}
func SExt(a *Term, w int) *Term {
	if a.w == w {
		return a
	}
	if a.w > w {
		return Extract(a, w-1, 0)
	}
	if a.isConst() {
		return C(w, uint64(sx(a.val, a.w)))
	}
	if a.hi < uint64(1)<<uint(a.w-1) {
		return ZExt(a, w)
	}
	if a.op == "ite" && leafConst(a, 4) {
		return Ite(a.args[0], SExt(a.args[1], w), SExt(a.args[2], w))
	}
	return mk("sext", w, uint64(w-a.w), "", a)
}

var plainArith = os.Getenv("GOSYM_PLAIN") != ""

func Extract(a *Term, hi, lo int) *Term {
	if lo == 0 && hi == a.w-1 {
		return a
	}
	if a.isConst() {
		return C(hi-lo+1, a.val>>uint(lo))
	}
	if (a.op == "zext" || a.op == "sext") && hi < a.args[0].w {
		return Extract(a.args[0], hi, lo)
	}
	if a.op == "zext" && lo >= a.args[0].w {
		return C(hi-lo+1, 0)
	}
	if a.op == "ite" && leafConst(a, 4) {
		return Ite(a.args[0], Extract(a.args[1], hi, lo), Extract(a.args[2], hi, lo))
	}
	if lo == 0 && !plainArith {
		switch a.op {
		case "bvand", "bvor", "bvxor", "bvadd", "bvsub", "bvmul":
			// low bits of these only depend on low bits of the operands
			return Bin(a.op, Extract(a.args[0], hi, 0), Extract(a.args[1], hi, 0))
		}
	}
	if a.op == "extract" {
		l0 := int(a.val & 0xff)
		return Extract(a.args[0], hi+l0, lo+l0)
	}
	return mk("extract", hi-lo+1, uint64(hi)<<8|uint64(lo), "", a)
}
func BvNot(a *Term) *Term {
	if a.isConst() {
		return C(a.w, ^a.val)
	}
	if a.op == "bvnot" {
		return a.args[0]
	}
	return mk("bvnot", a.w, 0, "", a)
}
func BvNeg(a *Term) *Term {
	if a.isConst() {
		return C(a.w, -a.val)
	}
	if a.op == "ite" && leafConst(a, 4) {
		return Ite(a.args[0], BvNeg(a.args[1]), BvNeg(a.args[2]))
	}
	return mk("bvneg", a.w, 0, "", a)
}

// App is an uninterpreted function application (bit-vector sorts only).
func App(name string, w int, args ...*Term) *Term { return mk("app", w, 0, name, args...) }

// value set of a term if it is an ite-tree over few constants
func valueSet(t *Term, limit int) ([]uint64, bool) {
	set := map[uint64]bool{}
	var order []uint64
	var walk func(t *Term, d int) bool
	walk = func(t *Term, d int) bool {
		if t.isConst() {
			if !set[t.val] {
				set[t.val] = true
				order = append(order, t.val)
			}
			return len(set) <= limit
		}
		if t.op == "ite" && d < 24 {
			return walk(t.args[1], d+1) && walk(t.args[2], d+1)
		}
		return false
	}
	if !walk(t, 0) {
		return nil, false
	}
	return order, true
}

// hasHardArith reports whether the cone of t contains multiplication/division by a
// non-power-of-two (these queries go to the integer-encoding back end first).
func hasHardArith(ts []*Term) bool {
	seen := map[int]bool{}
	var st []*Term
	st = append(st, ts...)
	for len(st) > 0 {
		t := st[len(st)-1]
		st = st[:len(st)-1]
		if seen[t.id] {
			continue
		}
		seen[t.id] = true
		switch t.op {
		case "bvmul", "bvudiv", "bvurem", "bvsdiv", "bvsrem":
			k := t.args[1]
			if t.op == "bvmul" && t.args[0].isConst() {
				k = t.args[0]
			}
			if !k.isConst() || bits.OnesCount64(k.val) != 1 {
				if t.w > 16 {
					return true
				}
			}
		}
		st = append(st, t.args...)
	}
	return false
}

// ---------- SMT printing

func sortOf(t *Term) string {
	if t.w == 0 {
		return "Bool"
	}
	return fmt.Sprintf("(_ BitVec %d)", t.w)
}

type Printer struct {
	sb    strings.Builder
	done  map[int]bool
	decl  map[string]*Term
	order []string
	nodes int
}

func NewPrinter() *Printer { return &Printer{done: map[int]bool{}, decl: map[string]*Term{}} }

// smtName quotes an input variable name; the prefix keeps harness names (sec, abs, div, ...)
// from colliding with theory symbols of the solvers.
func smtName(n string) string {
	return "|v:" + n + "|"
}

func (p *Printer) ref(t *Term) string {
	switch t.op {
	case "const":
		return fmt.Sprintf("(_ bv%d %d)", t.val, t.w)
	case "true", "false":
		return t.op
	case "var":
		return smtName(t.name)
	}
	return fmt.Sprintf("n%d", t.id)
}

func (p *Printer) emit(t *Term) {
	type fr struct {
		t *Term
		i int
	}
	st := []fr{{t, 0}}
	for len(st) > 0 {
		f := &st[len(st)-1]
		if p.done[f.t.id] {
			st = st[:len(st)-1]
			continue
		}
		if f.i < len(f.t.args) {
			a := f.t.args[f.i]
			f.i++
			if !p.done[a.id] {
				st = append(st, fr{a, 0})
			}
			continue
		}
		p.def(f.t)
		p.done[f.t.id] = true
		st = st[:len(st)-1]
	}
}

func (p *Printer) def(t *Term) {
	switch t.op {
	case "const", "true", "false":
		return
	case "var":
		if _, ok := p.decl[t.name]; !ok {
			p.decl[t.name] = t
			p.order = append(p.order, t.name)
			fmt.Fprintf(&p.sb, "(declare-const %s %s)\n", smtName(t.name), sortOf(t))
		}
		return
	}
	p.nodes++
	var e string
	a := func(i int) string { return p.ref(t.args[i]) }
	switch t.op {
	case "eq":
		e = fmt.Sprintf("(= %s %s)", a(0), a(1))
	case "ult":
		e = fmt.Sprintf("(bvult %s %s)", a(0), a(1))
	case "ule":
		e = fmt.Sprintf("(bvule %s %s)", a(0), a(1))
	case "slt":
		e = fmt.Sprintf("(bvslt %s %s)", a(0), a(1))
	case "sle":
		e = fmt.Sprintf("(bvsle %s %s)", a(0), a(1))
	case "not":
		e = fmt.Sprintf("(not %s)", a(0))
	case "and", "or":
		e = fmt.Sprintf("(%s %s %s)", t.op, a(0), a(1))
	case "ite":
		e = fmt.Sprintf("(ite %s %s %s)", a(0), a(1), a(2))
	case "zext":
		e = fmt.Sprintf("((_ zero_extend %d) %s)", t.val, a(0))
	case "sext":
		e = fmt.Sprintf("((_ sign_extend %d) %s)", t.val, a(0))
	case "extract":
		e = fmt.Sprintf("((_ extract %d %d) %s)", t.val>>8, t.val&0xff, a(0))
	case "bvnot", "bvneg":
		e = fmt.Sprintf("(%s %s)", t.op, a(0))
	case "app":
		fn := "uf_" + t.name
		if _, ok := p.decl[fn]; !ok {
			p.decl[fn] = nil
			var as []string
			for _, x := range t.args {
				as = append(as, sortOf(x))
			}
			fmt.Fprintf(&p.sb, "(declare-fun %s (%s) %s)\n", fn, strings.Join(as, " "), sortOf(t))
		}
		var as []string
		for i := range t.args {
			as = append(as, a(i))
		}
		e = fmt.Sprintf("(%s %s)", fn, strings.Join(as, " "))
	default:
		e = fmt.Sprintf("(%s %s %s)", t.op, a(0), a(1))
	}
	fmt.Fprintf(&p.sb, "(define-fun n%d () %s %s)\n", t.id, sortOf(t), e)
}

// evalTerm evaluates t under a total assignment of variables (missing = 0).
func evalTerm(t *Term, env map[string]uint64, memo map[int]uint64) uint64 {
	if v, ok := memo[t.id]; ok {
		return v
	}
	var r uint64
	a := func(i int) uint64 { return evalTerm(t.args[i], env, memo) }
	bv := func(b bool) uint64 {
		if b {
			return 1
		}
		return 0
	}
	switch t.op {
	case "const":
		r = t.val
	case "true":
		r = 1
	case "false":
		r = 0
	case "var":
		r = env[t.name] & mask(t.w)
		if t.w == 0 {
			r = env[t.name] & 1
		}
	case "eq":
		r = bv(a(0) == a(1))
	case "ult":
		r = bv(a(0) < a(1))
	case "ule":
		r = bv(a(0) <= a(1))
	case "slt":
		r = bv(sx(a(0), t.args[0].w) < sx(a(1), t.args[0].w))
	case "sle":
		r = bv(sx(a(0), t.args[0].w) <= sx(a(1), t.args[0].w))
	case "not":
		r = 1 - a(0)
	case "and":
		r = a(0) & a(1)
	case "or":
		r = a(0) | a(1)
	case "ite":
		if a(0) == 1 {
			r = a(1)
		} else {
			r = a(2)
		}
	case "zext":
		r = a(0)
	case "sext":
		r = uint64(sx(a(0), t.args[0].w)) & mask(t.w)
	case "extract":
		r = (a(0) >> (t.val & 0xff)) & mask(t.w)
	case "bvnot":
		r = ^a(0) & mask(t.w)
	case "bvneg":
		r = -a(0) & mask(t.w)
	case "app":
		panic("evalTerm: uninterpreted function")
	default:
		r = foldBin(t.op, t.w, a(0), a(1))
	}
	memo[t.id] = r
	return r
}

func show(t *Term, d int) string {
	switch t.op {
	case "const":
		return fmt.Sprintf("%d", t.val)
	case "var":
		return t.name
	case "true", "false":
		return t.op
	}
	if d == 0 {
		return "…"
	}
	var a []string
	for _, x := range t.args {
		a = append(a, show(x, d-1))
	}
	return "(" + t.op + " " + strings.Join(a, " ") + ")"
}
