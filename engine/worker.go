package main

import (
	"bufio"
	"encoding/json"
	"fmt"
	"os"
	"runtime"
	"runtime/debug"
	"sort"
	"strings"
	"sync"
	"sync/atomic"
	"time"
)

type Job struct {
	Harness string `json:"harness"`
	Choices []int  `json:"choices"`
	Quit    bool   `json:"quit,omitempty"`
}

type OblResult struct {
	Kind     string            `json:"kind"`
	Msg      string            `json:"msg"`
	Site     string            `json:"site"`
	KnownID  string            `json:"known_id,omitempty"`
	Status   string            `json:"status"` // unsat | sat | unknown
	Witness  bool              `json:"witness,omitempty"`
	Solver   string            `json:"solver,omitempty"`
	Secs     float64           `json:"secs"`
	Model    map[string]uint64 `json:"model,omitempty"`
	Observed map[string]uint64 `json:"observed,omitempty"`
	Trivial  bool              `json:"trivial,omitempty"`
}

type JobStats struct {
	Instrs    int     `json:"instrs"`
	States    int     `json:"states"`
	Forks     int     `json:"forks"`
	Merges    int     `json:"merges"`
	Pruned    int     `json:"pruned"`
	Terms     int     `json:"terms"`
	FeasCalls int     `json:"feas_calls"`
	Inputs    int     `json:"inputs"`
	ExecS     float64 `json:"exec_s"`
	SolveS    float64 `json:"solve_s"`
	Paths     int     `json:"paths"`
}

type JobResult struct {
	Harness string      `json:"harness"`
	Choices []int       `json:"choices"`
	Split   *SplitReq   `json:"split,omitempty"`
	Obls    []OblResult `json:"obls,omitempty"`
	Stats   JobStats    `json:"stats"`
	Solver  SolverStats `json:"solver"`
	Funcs   []string    `json:"funcs,omitempty"`
	Error   string      `json:"error,omitempty"`
	// Incomplete: the exploration budget ran out; Obls are those collected up to then (a sat one is
	// still a real counterexample, an all-unsat result proves nothing)
	Incomplete string `json:"incomplete,omitempty"`
	Unwind     int    `json:"unwind"`
	UnwindV    bool   `json:"unwind_is_violation,omitempty"`
}

type WorkerCfg struct {
	VerifDir    string            `json:"verif_dir"`
	Repo        string            `json:"repo"`
	PkgDirs     []string          `json:"pkg_dirs"`
	Tier        int               `json:"tier"`
	Known       map[string]bool   `json:"known"`
	KnownSites  map[string]string `json:"known_sites"`
	TmoMs       int               `json:"tmo_ms"`
	SolverPar   int               `json:"solver_par"`
	ExecBudgetS int               `json:"exec_budget_s"`
}

func workerMain(cfgPath string) {
	var cfg WorkerCfg
	data, err := os.ReadFile(cfgPath)
	if err != nil {
		fatal("worker: %v", err)
	}
	if err := json.Unmarshal(data, &cfg); err != nil {
		fatal("worker: %v", err)
	}
	ld, err := load(cfg.VerifDir, cfg.Repo, cfg.PkgDirs)
	if err != nil {
		fmt.Println(mustJSON(JobResult{Error: "load: " + err.Error()}))
		os.Exit(3)
	}
	fmt.Println(`{"ready":true}`)
	in := bufio.NewReaderSize(os.Stdin, 1<<20)
	for {
		line, err := in.ReadString('\n')
		if err != nil {
			return
		}
		var job Job
		if err := json.Unmarshal([]byte(line), &job); err != nil {
			fatal("worker: bad job: %v", err)
		}
		if job.Quit {
			return
		}
		res := runJob(ld, &cfg, job)
		fmt.Println(mustJSON(res))
	}
}

func mustJSON(v interface{}) string {
	b, err := json.Marshal(v)
	if err != nil {
		panic(err)
	}
	return string(b)
}

func fatal(f string, a ...interface{}) {
	fmt.Fprintf(os.Stderr, f+"\n", a...)
	os.Exit(2)
}

const memBudget = 3 << 30

func runJob(ld *Loaded, cfg *WorkerCfg, job Job) (res JobResult) {
	res.Harness, res.Choices = job.Harness, job.Choices
	resetTerms()
	opaqueN = 0
	e := NewExec(ld.prog)
	e.solver = NewSolver()
	defer e.solver.Close()
	e.harness, e.choices, e.tier, e.known = job.Harness, job.Choices, cfg.Tier, cfg.Known
	defer func() {
		if r := recover(); r != nil {
			if ee, ok := r.(engineError); ok {
				res.Error = ee.msg
			} else {
				res.Error = fmt.Sprintf("engine panic: %v\n%s", r, debug.Stack())
			}
		}
		res.Solver = e.solver.stats
	}()
	fn := ld.funcs[job.Harness]
	if fn == nil {
		res.Error = "no such harness function"
		return
	}
	t0 := time.Now()
	st := e.newState()
	// package initialisation of every gots package (std inits are skipped)
	for _, ini := range ld.gotsInits() {
		outs := e.call(st, ini, nil, nil)
		var rets []Outcome
		for _, o := range outs {
			if o.kind == ORet {
				rets = append(rets, o)
			}
		}
		if len(rets) != 1 {
			res.Error = fmt.Sprintf("init of %s: %d outcomes", ini.Pkg.Pkg.Path(), len(rets))
			return
		}
		st = rets[0].st
	}
	if len(e.obls) > 0 {
		// obligations raised by package initialisation are checked like any other
	}
	e.instrs, e.forks, e.merges, e.states = 0, 0, 0, 0
	e.funcs = map[string]bool{}
	if cfg.ExecBudgetS > 0 {
		e.deadline = time.Now().Add(time.Duration(cfg.ExecBudgetS) * time.Second)
	}
	// memory budget: a heap beyond memBudget ends the exploration like the time budget does
	// (16 workers share 62 GB; an exploding job used to take 8 GB and more)
	stopWatch := make(chan struct{})
	go func() {
		tk := time.NewTicker(2 * time.Second)
		defer tk.Stop()
		for {
			select {
			case <-stopWatch:
				return
			case <-tk.C:
				var ms runtime.MemStats
				runtime.ReadMemStats(&ms)
				if ms.HeapAlloc > memBudget {
					atomic.StoreInt32(&e.abort, 1)
					return
				}
			}
		}
	}()
	defer close(stopWatch)
	var outs []Outcome
	func() {
		defer func() {
			if r := recover(); r != nil {
				if _, ok := r.(budgetExceeded); ok {
					why := fmt.Sprintf("exploration budget of %ds", cfg.ExecBudgetS)
					if atomic.LoadInt32(&e.abort) != 0 {
						why = fmt.Sprintf("memory budget of %d MiB", memBudget>>20)
					}
					res.Incomplete = fmt.Sprintf("%s exhausted after %d instructions; only the %d obligations collected so far are decided", why, e.instrs, len(e.obls))
					return
				}
				panic(r)
			}
		}()
		outs = e.call(st, fn, nil, nil)
	}()
	e.deadline = time.Time{}
	res.Stats.ExecS = time.Since(t0).Seconds()
	res.Stats.Instrs, res.Stats.Forks, res.Stats.Merges, res.Stats.States, res.Stats.Pruned = e.instrs, e.forks, e.merges, e.states+1, e.pruned
	res.Stats.FeasCalls, res.Stats.Inputs = e.feasCalls, len(e.inputs)
	res.Stats.Paths = len(outs)
	res.Unwind = e.unwind
	res.UnwindV = e.unwindViolation
	if e.split != nil && res.Incomplete == "" {
		res.Split = e.split
		return
	}
	res.Funcs = sortedKeys(e.funcs)
	t1 := time.Now()
	res.Obls = e.discharge(cfg)
	res.Stats.SolveS = time.Since(t1).Seconds()
	res.Stats.Terms = tb.nextID
	return
}

func pcKey(pc []*Term) string {
	var sb strings.Builder
	for _, t := range pc {
		fmt.Fprintf(&sb, "%d,", t.id)
	}
	return sb.String()
}

func isPrefix(a, b []*Term) bool {
	if len(a) > len(b) {
		return false
	}
	for i := range a {
		if a[i] != b[i] {
			return false
		}
	}
	return true
}

// discharge decides every collected obligation.
func (e *Exec) discharge(cfg *WorkerCfg) []OblResult {
	tmo := cfg.TmoMs
	if tmo == 0 {
		tmo = 30000
	}
	var out []OblResult
	var satPCs [][]*Term
	// reach obligations first: their witnesses also settle the vacuity of assertions on the way
	reachDone := map[string]bool{}
	for _, o := range e.obls {
		if o.Kind != "reach" || reachDone[o.Msg] {
			continue
		}
		a := e.solver.Check(Query{asserts: o.pc, want: o.want, tmoMs: tmo, purpose: "reach"})
		r := OblResult{Kind: "reach", Msg: o.Msg, Site: o.Site, Status: a.status, Solver: a.solver, Secs: a.secs}
		if a.status == "sat" {
			reachDone[o.Msg] = true
			r.Model = e.fullModel(a.model)
			r.Observed = map[string]uint64{}
			memo := map[int]uint64{}
			for i, t := range o.want {
				if hasApp(t) {
					continue
				}
				r.Observed[o.obsN[i]] = evalTerm(t, r.Model, memo)
			}
			satPCs = append(satPCs, o.pc)
			out = append(out, r)
		} else if a.status == "unknown" {
			out = append(out, r)
		}
	}
	// reach tags never satisfiable
	tags := map[string]bool{}
	for _, o := range e.obls {
		if o.Kind == "reach" {
			tags[o.Msg] = true
		}
	}
	var tagList []string
	for t := range tags {
		tagList = append(tagList, t)
	}
	sort.Strings(tagList)
	for _, t := range tagList {
		if !reachDone[t] {
			found := false
			for _, r := range out {
				if r.Kind == "reach" && r.Msg == t {
					found = true
				}
			}
			if !found {
				out = append(out, OblResult{Kind: "reach", Msg: t, Status: "unsat"})
			}
		}
	}
	siteLive := map[string]bool{}
	siteSeen := map[string]*Obl{}
	// assertion / panic / unwinding obligations are independent: decide them on a pool of solver processes
	var work []*Obl
	for _, o := range e.obls {
		switch o.Kind {
		case "assert", "panic", "unwind", "alloc":
			work = append(work, o)
		}
	}
	results := make([][]OblResult, len(work))
	var dischargeBy time.Time
	if cfg.ExecBudgetS > 0 {
		dischargeBy = time.Now().Add(time.Duration(2*cfg.ExecBudgetS) * time.Second)
	}
	// panic obligations first: when the budget runs out the cheapest strong evidence is in
	if len(work) > 3000 {
		sort.SliceStable(work, func(i, j int) bool { return work[i].Kind == "panic" && work[j].Kind != "panic" })
	}
	// group obligations that share their path condition: one incremental session per group
	groupOf := map[string][]int{}
	var gkeys []string
	for i, o := range work {
		k := pcKey(o.pc)
		if _, ok := groupOf[k]; !ok {
			gkeys = append(gkeys, k)
		}
		groupOf[k] = append(groupOf[k], i)
	}
	par := cfg.SolverPar
	if par < 1 {
		par = 1
	}
	// large groups are split so that all solver processes stay busy
	var groups [][]int
	for _, k := range gkeys {
		g := groupOf[k]
		chunk := (len(g) + par - 1) / par
		if chunk < 32 {
			chunk = 32
		}
		for len(g) > 0 {
			n := chunk
			if n > len(g) {
				n = len(g)
			}
			groups = append(groups, g[:n])
			g = g[n:]
		}
	}
	if par > len(groups) {
		par = len(groups)
	}
	var wg sync.WaitGroup
	next := make(chan []int, len(groups))
	for _, g := range groups {
		next <- g
	}
	close(next)
	solvers := []*Solver{e.solver}
	for k := 1; k < par; k++ {
		solvers = append(solvers, NewSolver())
	}
	for k := 0; k < par; k++ {
		wg.Add(1)
		go func(so *Solver) {
			defer wg.Done()
			for g := range next {
				var sess *IncSession
				// assertions (frame comparisons over many bytes) are decided much faster by the
				// incremental core than by the one-shot bit-blasting tactic: measured 12 s vs 0.2 s
				useSess := len(g) >= 3
				for _, i := range g {
					if work[i].Kind == "assert" && !work[i].cond.isConst() {
						useSess = true
					}
				}
				if useSess && os.Getenv("GOSYM_NOINC") == "" {
					sess = so.NewSession(work[g[0]].pc)
				}
				for _, i := range g {
					if !dischargeBy.IsZero() && time.Now().After(dischargeBy) {
						// discharge budget exhausted: undecided, never counted as holding
						results[i] = []OblResult{{Kind: work[i].Kind, Msg: work[i].Msg, Site: work[i].Site, Status: "unknown", Solver: "discharge-budget"}}
						continue
					}
					results[i] = e.dischargeOne(cfg, so, sess, work[i], tmo)
				}
				if sess != nil {
					sess.Close()
				}
			}
		}(solvers[k])
	}
	wg.Wait()
	for k := 1; k < par; k++ {
		e.solver.stats.add(solvers[k].stats)
		solvers[k].Close()
	}
	for i, o := range work {
		out = append(out, results[i]...)
		if o.Kind == "assert" {
			key := o.Site + "|" + o.Msg
			if !siteLive[key] {
				for _, pc := range satPCs {
					if isPrefix(o.pc, pc) {
						siteLive[key] = true
						break
					}
				}
				if _, ok := siteSeen[key]; !ok {
					siteSeen[key] = o
				}
			}
		}
	}
	// vacuity of assertion sites not covered by a reach witness
	var keys []string
	for k := range siteSeen {
		keys = append(keys, k)
	}
	sort.Strings(keys)
	for _, k := range keys {
		if siteLive[k] {
			continue
		}
		live := false
		unknown := false
		tried := 0
		for _, o := range e.obls {
			if o.Kind != "assert" || o.Site+"|"+o.Msg != k {
				continue
			}
			if tried++; tried > 4 {
				unknown = true // not all instances tried: never reported as dead on this basis alone
				break
			}
			a := e.solver.Check(Query{asserts: o.pc, tmoMs: tmo, purpose: "vacuity"})
			if a.status == "sat" {
				live = true
				break
			}
			if a.status == "unknown" {
				unknown = true
			}
		}
		st := "sat"
		if !live {
			st = "unsat"
			if unknown {
				st = "unknown"
			}
		}
		out = append(out, OblResult{Kind: "vacuity", Msg: siteSeen[k].Msg, Site: siteSeen[k].Site, Status: st})
	}
	// sites already known to be live are reported too: liveness is aggregated per harness by the driver
	for _, k := range keys {
		if siteLive[k] {
			out = append(out, OblResult{Kind: "vacuity", Msg: siteSeen[k].Msg, Site: siteSeen[k].Site, Status: "sat"})
		}
	}
	return out
}

// dischargeOne decides one obligation (and, for a listed known finding, its witness).
func (e *Exec) dischargeOne(cfg *WorkerCfg, so *Solver, sess *IncSession, o *Obl, tmo int) []OblResult {
	var out []OblResult
	// check decides pc ∧ extra: through the incremental session when it gives a clean answer
	check := func(extra []*Term, purpose string) Answer {
		if sess != nil && !hasHardArith(extra) {
			if a, ok := sess.Check(extra, tmo); ok {
				return a
			}
		}
		return so.Check(Query{asserts: append(append([]*Term(nil), o.pc...), extra...), tmoMs: tmo, purpose: purpose})
	}
	{
		known := o.KnownID != "" && e.known[o.KnownID] && o.kcond != nil
		if o.Kind == "panic" && !known {
			if id, ok := cfg.KnownSites[e.harnessPrefix()+"|"+o.Site]; ok {
				// site-keyed known finding: the whole site is attributed
				a := check([]*Term{o.cond}, o.Kind)
				r := OblResult{Kind: o.Kind, Msg: o.Msg, Site: o.Site, KnownID: id, Status: a.status, Solver: a.solver, Secs: a.secs}
				if a.status == "sat" {
					r.Witness = true
					r.Model = e.fullModel(a.model)
				}
				out = append(out, r)
				return out
			}
		}
		if known {
			a := check([]*Term{o.cond, Not(o.kcond)}, o.Kind)
			r := OblResult{Kind: o.Kind, Msg: o.Msg, Site: o.Site, Status: a.status, Solver: a.solver, Secs: a.secs, Trivial: a.solver == "simplifier"}
			if a.status == "sat" {
				r.Model = e.fullModel(a.model)
			}
			out = append(out, r)
			aw := check([]*Term{o.cond, o.kcond}, "known-witness")
			if aw.status == "sat" {
				out = append(out, OblResult{Kind: o.Kind, Msg: o.Msg, Site: o.Site, KnownID: o.KnownID, Status: "sat", Witness: true, Solver: aw.solver, Secs: aw.secs, Model: e.fullModel(aw.model)})
			}
		} else {
			a := check([]*Term{o.cond}, o.Kind)
			r := OblResult{Kind: o.Kind, Msg: o.Msg, Site: o.Site, Status: a.status, Solver: a.solver, Secs: a.secs, Trivial: a.solver == "simplifier"}
			if a.status == "sat" {
				r.Model = e.fullModel(a.model)
				if debugOn {
					fmt.Fprintf(os.Stderr, "SAT %s %q: cond=%s\n", o.Kind, o.Msg, show(o.cond, 8))
				}
			}
			out = append(out, r)
		}
	}
	return out
}

func (e *Exec) harnessPrefix() string { return e.harness }

// fullModel extends a solver model with 0 for inputs the query did not mention.
func (e *Exec) fullModel(m map[string]uint64) map[string]uint64 {
	out := make(map[string]uint64, len(e.inputs))
	for _, v := range e.inputs {
		if x, ok := m[v.name]; ok {
			out[v.name] = x
		} else {
			out[v.name] = 0
		}
	}
	return out
}

func hasApp(t *Term) bool {
	seen := map[int]bool{}
	var st []*Term
	st = append(st, t)
	for len(st) > 0 {
		x := st[len(st)-1]
		st = st[:len(st)-1]
		if seen[x.id] {
			continue
		}
		seen[x.id] = true
		if x.op == "app" {
			return true
		}
		st = append(st, x.args...)
	}
	return false
}
