package main

import (
	"encoding/hex"
	"fmt"
	"go/types"
	"os"
	"strconv"
	"strings"
	"time"
	"unsafe"

	"golang.org/x/tools/go/ssa"
)

func (e *Exec) strArg(v Value, what string) string {
	s, ok := v.(StrV)
	if !ok {
		panic(engineErr("%s: expected string", what))
	}
	c, ok := s.concrete()
	if !ok {
		panic(engineErr("%s: string must be concrete", what))
	}
	return c
}

func (e *Exec) freshName(s *State, name string) string {
	k := s.bump(name)
	if k == 0 {
		return name
	}
	return fmt.Sprintf("%s#%d", name, k)
}

func (e *Exec) fresh(s *State, name string, w int) *Term {
	v := Var(w, e.freshName(s, name))
	e.addInput(v)
	return v
}

// intrinsic implements the body-less functions of package vrt.
func (e *Exec) intrinsic(s *State, fr *Frame, fn *ssa.Function, args []Value, in *ssa.Call) []Outcome {
	switch fn.Name() {
	case "Byte":
		return ret(s, e.fresh(s, e.strArg(args[0], "vrt.Byte"), 8))
	case "Uint16":
		return ret(s, e.fresh(s, e.strArg(args[0], "vrt.Uint16"), 16))
	case "Uint32":
		return ret(s, e.fresh(s, e.strArg(args[0], "vrt.Uint32"), 32))
	case "Uint64":
		return ret(s, e.fresh(s, e.strArg(args[0], "vrt.Uint64"), 64))
	case "Int":
		return ret(s, e.fresh(s, e.strArg(args[0], "vrt.Int"), 64))
	case "Bool":
		v := e.fresh(s, e.strArg(args[0], "vrt.Bool"), 8)
		return ret(s, Not(Cmp("eq", v, C(8, 0))))
	case "Bytes":
		name := e.strArg(args[0], "vrt.Bytes")
		base := e.freshName(s, name)
		sl, ok := args[1].(SliceV)
		if !ok {
			return ret(s)
		}
		if !sl.len_.isConst() || !sl.off.isConst() {
			panic(engineErr("vrt.Bytes on a slice of symbolic extent"))
		}
		arr := e.getPath(s.get(sl.obj), sl.path).(ArrV)
		nc := append([]Value(nil), arr.cells...)
		for i := uint64(0); i < sl.len_.val; i++ {
			v := Var(8, fmt.Sprintf("%s[%d]", base, i))
			e.addInput(v)
			nc[sl.off.val+i] = v
		}
		s.set(sl.obj, e.setPath(s.get(sl.obj), sl.path, ArrV{nc}))
		return ret(s)
	case "Choose":
		name := e.strArg(args[0], "vrt.Choose")
		lo, hi := term(args[1]), term(args[2])
		if !lo.isConst() || !hi.isConst() {
			panic(engineErr("vrt.Choose bounds must be concrete"))
		}
		k := s.nchoose
		s.nchoose++
		if k < len(e.choices) {
			v := e.choices[k]
			if int64(v) < int64(lo.val) || int64(v) > int64(hi.val) {
				panic(engineErr("choice %d out of range for %s", v, name))
			}
			return ret(s, C(64, uint64(int64(v))))
		}
		e.split = &SplitReq{Name: name, Lo: int(int64(lo.val)), Hi: int(int64(hi.val))}
		return []Outcome{{kind: OStop, st: s, msg: "split"}}
	case "Tier":
		return ret(s, C(64, uint64(e.tier)))
	case "Symbolic":
		return ret(s, True())
	case "Assume":
		c := term(args[0])
		if c.isFalse() {
			return []Outcome{{kind: OStop, st: s, msg: "assume false"}}
		}
		s.assume(c)
		return ret(s)
	case "Assert":
		c := term(args[0])
		msg := e.strArg(args[1], "vrt.Assert")
		site := e.siteOf(fr.fn, in)
		e.obls = append(e.obls, &Obl{Kind: "assert", Harness: e.harness, Msg: msg, Site: site, pc: s.pc, cond: Not(c)})
		return ret(s)
	case "AssertKnown":
		c := term(args[0])
		id := e.strArg(args[1], "vrt.AssertKnown")
		k := term(args[2])
		msg := e.strArg(args[3], "vrt.AssertKnown")
		site := e.siteOf(fr.fn, in)
		e.obls = append(e.obls, &Obl{Kind: "assert", Harness: e.harness, Msg: msg, Site: site, pc: s.pc, cond: Not(c), KnownID: id, kcond: k})
		return ret(s)
	case "PanicKnown":
		id := e.strArg(args[0], "vrt.PanicKnown")
		k := term(args[1])
		if id == "" {
			s.kpID, s.kpCond = "", nil
		} else {
			s.kpID, s.kpCond = id, k
		}
		return ret(s)
	case "IsKnown":
		return ret(s, B(e.known[e.strArg(args[0], "vrt.IsKnown")]))
	case "Reach":
		tag := e.strArg(args[0], "vrt.Reach")
		var want []*Term
		var names []string
		for _, o := range e.observes {
			want = append(want, o.t)
			names = append(names, o.name)
		}
		e.obls = append(e.obls, &Obl{Kind: "reach", Harness: e.harness, Msg: tag, Site: e.siteOf(fr.fn, in), pc: s.pc, cond: True(), want: want, obsN: names})
		return ret(s)
	case "Observe":
		name := e.strArg(args[0], "vrt.Observe")
		e.observes = append(e.observes, obsRec{name, term(args[1])})
		return ret(s)
	case "SetUnwind":
		k := term(args[0])
		if !k.isConst() {
			panic(engineErr("vrt.SetUnwind needs a concrete limit"))
		}
		e.unwind = int(k.val)
		e.unwindViolation = term(args[1]).isTrue()
		return ret(s)
	case "HavocLoop":
		if e.havoc == nil {
			e.havoc = map[string]string{}
			e.havocUsed = map[string]bool{}
			e.havocSeen = map[string]bool{}
		}
		name := e.strArg(args[0], "vrt.HavocLoop")
		vn := e.strArg(args[1], "vrt.HavocLoop")
		if vn != "" {
			e.havoc[name] = vn
		} else {
			delete(e.havoc, name)
		}
		return ret(s)
	case "StubCRC":
		e.stubCRC = term(args[0]).isTrue()
		return ret(s)
	case "HavocUsed":
		return ret(s, B(e.havocUsed[e.strArg(args[0], "vrt.HavocUsed")]))
	case "UF32":
		// uninterpreted summary of a byte string: 32-bit result depending on length and contents
		name := e.strArg(args[0], "vrt.UF32")
		var ts []*Term
		switch sl := args[1].(type) {
		case SliceV:
			if !sl.len_.isConst() {
				panic(engineErr("vrt.UF32 on a slice of symbolic length"))
			}
			cells := e.cellsOf(s, sl)
			for i := uint64(0); i < sl.len_.val; i++ {
				ts = append(ts, term(e.iteChain(cells, Bin("bvadd", sl.off, C(64, i)))))
			}
		case NilV:
		}
		return ret(s, e.ufBytes(name, ts))
	}
	panic(engineErr("unknown intrinsic vrt.%s", fn.Name()))
}

// ufBytes folds a byte string into a chain of binary uninterpreted applications,
// so that equal strings get equal results and nothing else is known.
func (e *Exec) ufBytes(name string, ts []*Term) *Term {
	acc := App(name+"_init", 32, C(32, uint64(len(ts))))
	for _, b := range ts {
		acc = App(name+"_step", 32, acc, b)
	}
	return acc
}

func nativeDate(a [8]int64) Value {
	t := time.Date(int(a[0]), time.Month(a[1]), int(a[2]), int(a[3]), int(a[4]), int(a[5]), int(a[6]), time.UTC)
	raw := *(*[3]uint64)(unsafe.Pointer(&t))
	if raw[2] != 0 {
		panic(engineErr("time.Date: non-UTC loc"))
	}
	return StructV{fields: []Value{C(64, raw[0]), C(64, raw[1]), NilV{}}}
}

// goValue converts a concrete engine value into a Go value for native formatting.
func goValue(t types.Type, v Value) (interface{}, bool) {
	switch x := v.(type) {
	case *Term:
		if !x.isConst() && !x.isBoolConst() {
			return nil, false
		}
		b, ok := t.Underlying().(*types.Basic)
		if !ok {
			return nil, false
		}
		if _, named := t.(*types.Named); named {
			// named types may carry String methods: format the underlying value only if there is none
			if ms := types.NewMethodSet(t); ms.Lookup(nil, "String") != nil || ms.Lookup(nil, "Error") != nil {
				return nil, false
			}
		}
		switch b.Kind() {
		case types.Bool:
			return x.isTrue(), true
		case types.Uint8:
			return uint8(x.val), true
		case types.Uint16:
			return uint16(x.val), true
		case types.Uint32:
			return uint32(x.val), true
		case types.Uint64:
			return uint64(x.val), true
		case types.Uint:
			return uint(x.val), true
		case types.Int8:
			return int8(x.val), true
		case types.Int16:
			return int16(x.val), true
		case types.Int32:
			return int32(x.val), true
		case types.Int64:
			return int64(x.val), true
		case types.Int:
			return int(x.val), true
		}
	case StrV:
		if _, named := t.(*types.Named); named {
			return nil, false
		}
		c, ok := x.concrete()
		return c, ok
	}
	return nil, false
}

func (e *Exec) variadicArgs(s *State, v Value) ([]interface{}, bool) {
	var out []interface{}
	switch sl := v.(type) {
	case NilV:
		return out, true
	case SliceV:
		if !sl.len_.isConst() || !sl.off.isConst() {
			return nil, false
		}
		cells := e.cellsOf(s, sl)
		for i := uint64(0); i < sl.len_.val; i++ {
			iv, ok := cells[sl.off.val+i].(IfaceV)
			if !ok {
				return nil, false
			}
			g, ok := goValue(iv.typ, iv.val)
			if !ok {
				return nil, false
			}
			out = append(out, g)
		}
		return out, true
	}
	return nil, false
}

func (e *Exec) byteSlice(s *State, v Value) ([]*Term, bool) {
	switch sl := v.(type) {
	case NilV:
		return nil, true
	case SliceV:
		if !sl.len_.isConst() {
			return nil, false
		}
		cells := e.cellsOf(s, sl)
		out := make([]*Term, sl.len_.val)
		for i := range out {
			out[i] = term(e.iteChain(cells, Bin("bvadd", sl.off, C(64, uint64(i)))))
		}
		return out, true
	}
	return nil, false
}

func concreteBytes(ts []*Term) ([]byte, bool) {
	out := make([]byte, len(ts))
	for i, t := range ts {
		if !t.isConst() {
			return nil, false
		}
		out[i] = byte(t.val)
	}
	return out, true
}

func (e *Exec) newSlice(s *State, ts []*Term) Value {
	cells := make([]Value, len(ts))
	for i, t := range ts {
		cells[i] = t
	}
	id := e.alloc(s, ArrV{cells})
	n := C(64, uint64(len(ts)))
	return SliceV{id, nil, C(64, 0), n, n, true}
}

func isGots(fn *ssa.Function) bool {
	return fn.Pkg != nil && strings.HasPrefix(fn.Pkg.Pkg.Path(), "github.com/Comcast/gots")
}

var opaqueN int

func (e *Exec) callFn(s *State, fr *Frame, fn *ssa.Function, args []Value, in *ssa.Call) []Outcome {
	if fn.Pkg != nil && strings.HasSuffix(fn.Pkg.Pkg.Path(), "/zzverif/vrt") && fn.Blocks == nil {
		return e.intrinsic(s, fr, fn, args, in)
	}
	name := fn.String()
	if e.stubCRC && name == "github.com/Comcast/gots/v2.ComputeCRC" {
		// uninterpreted summary: the four big-endian bytes of UF(input)
		ts, ok := e.byteSlice(s, args[0])
		if !ok {
			panic(engineErr("stubbed ComputeCRC on a slice of symbolic length"))
		}
		u := e.ufBytes("crc", ts)
		return ret(s, e.newSlice(s, []*Term{Extract(u, 31, 24), Extract(u, 23, 16), Extract(u, 15, 8), Extract(u, 7, 0)}))
	}
	switch name {
	case "errors.New":
		opaqueN++
		msg := "?"
		if sv, ok := args[0].(StrV); ok {
			msg = sv.String()
		}
		return ret(s, ErrV{e.errCode(fmt.Sprintf("errors.New#%d:%s", opaqueN, msg))})
	case "fmt.Errorf":
		opaqueN++
		return ret(s, ErrV{e.errCode(fmt.Sprintf("fmt.Errorf#%d", opaqueN))})
	case "fmt.Sprintf":
		if f, ok := args[0].(StrV); ok {
			if fs, ok := f.concrete(); ok {
				if va, ok := e.variadicArgs(s, args[1]); ok {
					return ret(s, mkStr(fmt.Sprintf(fs, va...)))
				}
				if debugOn {
					fmt.Fprintf(os.Stderr, "Sprintf(%q) with non-concrete operands in %s\n", fs, fr.fn.String())
				}
			}
		}
		return ret(s, mkStr("<fmt>"))
	case "fmt.Sprint", "fmt.Sprintln":
		return ret(s, mkStr("<fmt>"))
	case "fmt.Println", "fmt.Printf", "fmt.Print":
		return ret(s, C(64, 0), ErrV{C(32, 0)})
	case "strconv.Itoa":
		if t := term(args[0]); t.isConst() {
			return ret(s, mkStr(strconv.Itoa(int(int64(t.val)))))
		}
		return ret(s, mkStr("<itoa>"))
	case "encoding/hex.EncodeToString":
		if ts, ok := e.byteSlice(s, args[0]); ok {
			if bs, ok := concreteBytes(ts); ok {
				return ret(s, mkStr(hex.EncodeToString(bs)))
			}
		}
		return ret(s, mkStr("<hex>"))
	case "strings.Contains", "strings.TrimPrefix", "strings.Compare", "strings.HasPrefix", "strings.HasSuffix", "strings.ToUpper", "strings.ToLower", "strings.TrimSpace", "strings.Index":
		a, ok1 := args[0].(StrV).concrete()
		var b string
		ok2 := true
		if len(args) > 1 {
			b, ok2 = args[1].(StrV).concrete()
		}
		if !ok1 && ok2 && len(args) > 1 {
			// symbolic haystack, concrete needle
			switch name {
			case "strings.Contains":
				return ret(s, strPred(args[0].(StrV), func(h []*Term) *Term { return symContains(h, b) }))
			case "strings.HasPrefix":
				return ret(s, strPred(args[0].(StrV), func(h []*Term) *Term { return symMatchAt(h, 0, b) }))
			case "strings.HasSuffix":
				return ret(s, strPred(args[0].(StrV), func(h []*Term) *Term { return symMatchAt(h, len(h)-len(b), b) }))
			case "strings.TrimPrefix":
				return ret(s, symTrimPrefix(args[0].(StrV), b))
			}
		}
		if !ok1 || !ok2 {
			panic(engineErr("%s on symbolic strings", name))
		}
		switch name {
		case "strings.Contains":
			return ret(s, B(strings.Contains(a, b)))
		case "strings.TrimPrefix":
			return ret(s, mkStr(strings.TrimPrefix(a, b)))
		case "strings.Compare":
			return ret(s, C(64, uint64(int64(strings.Compare(a, b)))))
		case "strings.HasPrefix":
			return ret(s, B(strings.HasPrefix(a, b)))
		case "strings.HasSuffix":
			return ret(s, B(strings.HasSuffix(a, b)))
		case "strings.ToUpper":
			return ret(s, mkStr(strings.ToUpper(a)))
		case "strings.ToLower":
			return ret(s, mkStr(strings.ToLower(a)))
		case "strings.TrimSpace":
			return ret(s, mkStr(strings.TrimSpace(a)))
		case "strings.Index":
			return ret(s, C(64, uint64(int64(strings.Index(a, b)))))
		}
	case "time.Now":
		return ret(s, e.zero(fn.Signature.Results().At(0).Type()))
	case "time.Date":
		var a [8]int64
		for i := 0; i < 7; i++ {
			t := term(args[i])
			if !t.isConst() {
				panic(engineErr("time.Date with symbolic arguments"))
			}
			a[i] = sx(t.val, t.w)
		}
		return ret(s, nativeDate(a))
	case "encoding/binary.Write":
		return e.binaryWrite(s, fr, args, in)
	case "bytes.IndexByte", "internal/bytealg.IndexByte":
		ts, ok := e.byteSlice(s, args[0])
		if !ok {
			panic(engineErr("IndexByte on symbolic-length slice"))
		}
		c := term(args[1])
		r := C(64, ^uint64(0))
		for i := len(ts) - 1; i >= 0; i-- {
			r = Ite(Cmp("eq", ts[i], c), C(64, uint64(i)), r)
		}
		return ret(s, r)
	case "internal/bytealg.MakeNoZero":
		n := SExt(term(args[0]), 64)
		return e.makeSlice(s, fr, in, types.Typ[types.Uint8], n, n)
	case "(*sync.Mutex).Lock", "(*sync.Mutex).Unlock", "(*sync.RWMutex).Lock", "(*sync.RWMutex).Unlock", "(*sync.RWMutex).RLock", "(*sync.RWMutex).RUnlock":
		return ret(s)
	}
	if fn.Name() == "init" && !isGots(fn) {
		return ret(s)
	}
	if fn.Blocks == nil {
		panic(engineErr("call of external function %s (no model)", name))
	}
	return e.call(s, fn, args, nil)
}

// binaryWrite models encoding/binary.Write(w, BigEndian, v) for the value kinds gots
// uses (fixed-size unsigned integers and []uint8) when w is a *bytes.Buffer: the
// big-endian bytes of v are passed to the real (*bytes.Buffer).Write.
func (e *Exec) binaryWrite(s *State, fr *Frame, args []Value, in *ssa.Call) []Outcome {
	w, ok := args[0].(IfaceV)
	if !ok {
		panic(engineErr("binary.Write: nil writer"))
	}
	dv, ok := args[2].(IfaceV)
	if !ok {
		panic(engineErr("binary.Write: unsupported data %T", args[2]))
	}
	var ts []*Term
	switch v := dv.val.(type) {
	case *Term:
		if v.w == 0 {
			ts = []*Term{Ite(v, C(8, 1), C(8, 0))}
		} else {
			for sh := v.w - 8; sh >= 0; sh -= 8 {
				ts = append(ts, Extract(v, sh+7, sh))
			}
		}
	case SliceV, NilV:
		if sl, isS := v.(SliceV); isS && !sl.len_.isConst() {
			// []uint8 of symbolic length: binary.Write writes exactly these bytes
			if st, ok := dv.typ.Underlying().(*types.Slice); !ok || width(st.Elem()) != 8 {
				panic(engineErr("binary.Write: unsupported slice type %s", dv.typ))
			}
			fn := e.prog.LookupMethod(w.typ, nil, "Write")
			if fn == nil {
				panic(engineErr("binary.Write: writer %s has no Write", w.typ))
			}
			outs := e.callFn(s, fr, fn, []Value{w.val, sl}, in)
			var res []Outcome
			for _, o := range outs {
				if o.kind == ORet {
					res = append(res, Outcome{kind: ORet, st: o.st, vals: []Value{o.vals[1]}})
				} else {
					res = append(res, o)
				}
			}
			return res
		}
		bs, ok := e.byteSlice(s, v)
		if !ok {
			panic(engineErr("binary.Write: slice of symbolic length"))
		}
		if sl, isS := v.(SliceV); isS {
			if st, ok := dv.typ.Underlying().(*types.Slice); !ok || width(st.Elem()) != 8 {
				panic(engineErr("binary.Write: unsupported slice type %s", dv.typ))
			}
			_ = sl
		}
		ts = bs
	default:
		panic(engineErr("binary.Write: unsupported data %T", dv.val))
	}
	fn := e.prog.LookupMethod(w.typ, nil, "Write")
	if fn == nil {
		panic(engineErr("binary.Write: writer %s has no Write", w.typ))
	}
	data := e.newSlice(s, ts)
	if len(ts) == 0 {
		// binary.Write still calls w.Write with an empty slice
		data = e.newSlice(s, nil)
	}
	outs := e.callFn(s, fr, fn, []Value{w.val, data}, in)
	var res []Outcome
	for _, o := range outs {
		if o.kind == ORet {
			res = append(res, Outcome{kind: ORet, st: o.st, vals: []Value{o.vals[1]}})
		} else {
			res = append(res, o)
		}
	}
	return res
}

func (e *Exec) builtin(s *State, fr *Frame, name string, args []Value, in *ssa.Call) []Outcome {
	switch name {
	case "len":
		switch x := args[0].(type) {
		case MapRef:
			return ret(s, C(64, uint64(len(s.get(x.obj).(MapV).keys))))
		}
		return ret(s, e.sliceLen(args[0]))
	case "cap":
		if x, ok := args[0].(SliceV); ok {
			return ret(s, x.cap_)
		}
		return ret(s, C(64, 0))
	case "ssa:wrapnilchk":
		if _, isNil := args[0].(NilV); isNil {
			e.panicState(s, fr, in, True(), "nil receiver")
			return []Outcome{{kind: OPanic, st: s}}
		}
		return ret(s, args[0])
	case "recover":
		return ret(s, NilV{})
	case "print", "println":
		return ret(s)
	case "min", "max":
		r := term(args[0])
		sg := signed(in.Common().Args[0].Type())
		for _, a := range args[1:] {
			t := term(a)
			op := "ult"
			if sg {
				op = "slt"
			}
			var c *Term
			if name == "min" {
				c = Cmp(op, t, r)
			} else {
				c = Cmp(op, r, t)
			}
			r = Ite(c, t, r)
		}
		return ret(s, r)
	case "delete":
		mr, ok := args[0].(MapRef)
		if !ok {
			return ret(s)
		}
		m := s.get(mr.obj).(MapV)
		var outs []Outcome
		for _, a := range e.keyMatch(s, m, args[1]) {
			if a.idx >= 0 {
				cur := a.st.get(mr.obj).(MapV)
				nk := append(append([]Value(nil), cur.keys[:a.idx]...), cur.keys[a.idx+1:]...)
				nv := append(append([]Value(nil), cur.vals[:a.idx]...), cur.vals[a.idx+1:]...)
				a.st.set(mr.obj, MapV{nk, nv})
			}
			outs = append(outs, Outcome{kind: ORet, st: a.st})
		}
		return outs
	case "copy":
		return e.doCopy(s, args)
	case "append":
		return e.doAppend(s, fr, args, in)
	}
	panic(engineErr("builtin %s", name))
}

func (e *Exec) doCopy(s *State, args []Value) []Outcome {
	if _, ok := args[1].(NilV); ok {
		return ret(s, C(64, 0))
	}
	if _, ok := args[0].(NilV); ok {
		return ret(s, C(64, 0))
	}
	d := args[0].(SliceV)
	var srcCells []Value
	var soff, slen *Term
	switch sr := args[1].(type) {
	case SliceV:
		srcCells = e.cellsOf(s, sr)
		soff, slen = sr.off, sr.len_
	case StrV:
		sr = sr.plain("copy")
		for _, ch := range sr.b {
			srcCells = append(srcCells, ch)
		}
		soff, slen = C(64, 0), C(64, uint64(len(sr.b)))
	default:
		panic(engineErr("copy from %T", args[1]))
	}
	n := Ite(Cmp("slt", d.len_, slen), d.len_, slen)
	if len(srcCells) == 0 {
		// empty backing store: nothing can be copied
		return ret(s, n)
	}
	darr := e.getPath(s.get(d.obj), d.path).(ArrV)
	nc := append([]Value(nil), darr.cells...)
	jlo, jhi := d.off.lo, uint64(len(nc))
	if end, c := addNoWrap(d.off.hi, n.hi); c && end < jhi {
		jhi = end
	}
	for j := jlo; j < jhi; j++ {
		cj := C(64, j)
		in_ := And(Cmp("ule", d.off, cj), Cmp("ult", cj, Bin("bvadd", d.off, n)))
		if in_.isFalse() {
			continue
		}
		sidx := Bin("bvadd", soff, Bin("bvsub", cj, d.off))
		if sidx.isConst() && sidx.val >= uint64(len(srcCells)) {
			continue
		}
		sv := e.iteChainSafe(srcCells, sidx)
		if in_.isTrue() {
			nc[j] = sv
			continue
		}
		m, ok := mergeValue(in_, sv, nc[j])
		if !ok {
			panic(engineErr("copy: unmergeable cells under symbolic extent"))
		}
		nc[j] = m
	}
	s.set(d.obj, e.setPath(s.get(d.obj), d.path, ArrV{nc}))
	return ret(s, n)
}

func addNoWrap(a, b uint64) (uint64, bool) {
	s := a + b
	return s, s >= a
}

// like iteChain but tolerates indices beyond the array (value irrelevant under its guard)
func (e *Exec) iteChainSafe(cells []Value, idx *Term) Value {
	if len(cells) == 0 {
		return C(8, 0) // unreachable under its guard
	}
	if idx.isConst() && idx.val >= uint64(len(cells)) {
		return cells[0]
	}
	if !idx.isConst() && idx.lo >= uint64(len(cells)) {
		return cells[0]
	}
	return e.iteChain(cells, idx)
}

func symAppend(args []Value) bool {
	for _, a := range args {
		if x, ok := a.(SliceV); ok && (!x.len_.isConst() || !x.off.isConst() || !x.cap_.isConst()) {
			return true
		}
	}
	return false
}

func (e *Exec) doAppend(s *State, fr *Frame, args []Value, in *ssa.Call) []Outcome {
	st, _ := in.Type().Underlying().(*types.Slice)
	var et types.Type = types.Typ[types.Uint8]
	if st != nil {
		et = st.Elem()
	}
	scal := isScalarType(et)
	if symAppend(args) {
		// symbolic extents: the model always allocates a fresh backing store
		var bcells, scells []Value
		boff, blen := C(64, 0), C(64, 0)
		soff, slen := C(64, 0), C(64, 0)
		if x, ok := args[0].(SliceV); ok {
			bcells, boff, blen = e.cellsOf(s, x), x.off, x.len_
		}
		switch y := args[1].(type) {
		case SliceV:
			scells, soff, slen = e.cellsOf(s, y), y.off, y.len_
		case StrV:
			y = y.plain("append")
			for _, ch := range y.b {
				scells = append(scells, ch)
			}
			slen = C(64, uint64(len(y.b)))
		}
		bmax, smax := uint64(len(bcells)), uint64(len(scells))
		if blen.hi < bmax {
			bmax = blen.hi
		}
		if slen.hi < smax {
			smax = slen.hi
		}
		size := bmax + smax
		z := e.zero(et)
		cells := make([]Value, size)
		for j := range cells {
			cj := C(64, uint64(j))
			var v Value = z
			if len(scells) > 0 {
				inS := And(Cmp("ule", blen, cj), Cmp("ult", cj, Bin("bvadd", blen, slen)))
				if !inS.isFalse() {
					sv := e.iteChainSafe(scells, Bin("bvadd", soff, Bin("bvsub", cj, blen)))
					m, ok := mergeValue(inS, sv, v)
					if !ok {
						panic(engineErr("append: unmergeable cells under symbolic extent"))
					}
					v = m
				}
			}
			if len(bcells) > 0 {
				inB := Cmp("ult", cj, blen)
				if !inB.isFalse() {
					bv := e.iteChainSafe(bcells, Bin("bvadd", boff, cj))
					m, ok := mergeValue(inB, bv, v)
					if !ok {
						panic(engineErr("append: unmergeable cells under symbolic extent"))
					}
					v = m
				}
			}
			cells[j] = v
		}
		id := e.alloc(s, ArrV{cells})
		return ret(s, SliceV{id, nil, C(64, 0), Bin("bvadd", blen, slen), C(64, size), scal})
	}
	var base []Value
	ln, cp := 0, 0
	var bs SliceV
	hasBase := false
	if x, ok := args[0].(SliceV); ok {
		bs, hasBase = x, true
		ln, cp = int(x.len_.val), int(x.cap_.val)
		off := int(x.off.val)
		base = e.cellsOf(s, x)[off : off+ln]
	}
	var add []Value
	switch y := args[1].(type) {
	case SliceV:
		off, l := int(y.off.val), int(y.len_.val)
		add = e.cellsOf(s, y)[off : off+l]
	case StrV:
		y = y.plain("append")
		for _, ch := range y.b {
			add = append(add, ch)
		}
	case NilV:
	}
	if hasBase && ln+len(add) <= cp {
		off := int(bs.off.val)
		arr := e.getPath(s.get(bs.obj), bs.path).(ArrV)
		nc := append([]Value(nil), arr.cells...)
		copy(nc[off+ln:], add)
		s.set(bs.obj, e.setPath(s.get(bs.obj), bs.path, ArrV{nc}))
		return ret(s, SliceV{bs.obj, bs.path, bs.off, C(64, uint64(ln+len(add))), bs.cap_, bs.scal})
	}
	if len(add) == 0 {
		return ret(s, args[0])
	}
	ncap := ln + len(add)
	if hasBase {
		ncap = (ln + len(add)) * 2
	}
	z := e.zero(et)
	cells := make([]Value, ncap)
	for i := range cells {
		cells[i] = z
	}
	copy(cells, base)
	copy(cells[ln:], add)
	id := e.alloc(s, ArrV{cells})
	return ret(s, SliceV{id, nil, C(64, 0), C(64, uint64(ln+len(add))), C(64, uint64(ncap)), scal})
}

// ---- string predicates over symbolic bytes (concrete lengths, guarded alternatives)

func strPred(h StrV, f func([]*Term) *Term) *Term {
	if h.alt != nil {
		return IteB(h.alt.c, strPred(h.alt.x, f), strPred(h.alt.y, f))
	}
	return f(h.b)
}

func symMatchAt(h []*Term, pos int, needle string) *Term {
	if pos < 0 || pos+len(needle) > len(h) {
		return False()
	}
	r := True()
	for i := 0; i < len(needle); i++ {
		r = And(r, Cmp("eq", h[pos+i], C(8, uint64(needle[i]))))
	}
	return r
}

func symContains(h []*Term, needle string) *Term {
	r := False()
	for p := 0; p+len(needle) <= len(h); p++ {
		r = Or(r, symMatchAt(h, p, needle))
	}
	return r
}

func symTrimPrefix(h StrV, prefix string) StrV {
	if h.alt != nil {
		return StrV{alt: &strAlt{c: h.alt.c, x: symTrimPrefix(h.alt.x, prefix), y: symTrimPrefix(h.alt.y, prefix)}}
	}
	m := symMatchAt(h.b, 0, prefix)
	if m.isFalse() {
		return h
	}
	cut := StrV{b: h.b[len(prefix):]}
	if m.isTrue() {
		return cut
	}
	return StrV{alt: &strAlt{c: m, x: cut, y: h}}
}
