package main

import (
	"bufio"
	"fmt"
	"io"
	"os"
	"os/exec"
	"strconv"
	"strings"
	"sync"
	"syscall"
	"time"
)

// One persistent solver process. Every query is self-contained: (reset), the cone
// of definitions, the assertions, (check-sat), optional (get-value ...), and an
// (echo) sentinel. Any "(error" line makes the answer inconclusive.
type SolverProc struct {
	name  string
	argv  []string
	cmd   *exec.Cmd
	in    io.WriteCloser
	out   *bufio.Reader
	lines chan string
	tmoOp func(ms int) string
	reset string
	nq    int
	mu    sync.Mutex
}

type SolverStats struct {
	Queries   int                `json:"queries"`
	Sat       int                `json:"sat"`
	Unsat     int                `json:"unsat"`
	Unknown   int                `json:"unknown"`
	TimeS     float64            `json:"time_s"`
	BySolver  map[string]int     `json:"by_solver"`
	TimeBy    map[string]float64 `json:"time_by_solver_s"`
	MaxQueryS float64            `json:"max_query_s"`
	CacheHits int                `json:"cache_hits"`
}

type Solver struct {
	mu    sync.Mutex
	procs map[string]*SolverProc
	stats SolverStats
	dump  string
	cache map[string]string
}

func NewSolver() *Solver {
	return &Solver{procs: map[string]*SolverProc{}, stats: SolverStats{BySolver: map[string]int{}, TimeBy: map[string]float64{}}, dump: os.Getenv("GOSYM_DUMP"), cache: map[string]string{}}
}

func solverSpec(name string) *SolverProc {
	switch name {
	case "z3new":
		return &SolverProc{name: name, argv: []string{"z3-new", "-in"}, reset: "(reset)\n(set-option :produce-models true)\n",
			tmoOp: func(ms int) string { return fmt.Sprintf("(set-option :timeout %d)\n", ms) }}
	case "z3old":
		return &SolverProc{name: name, argv: []string{"/usr/bin/z3", "-in"}, reset: "(reset)\n(set-option :produce-models true)\n",
			tmoOp: func(ms int) string { return fmt.Sprintf("(set-option :timeout %d)\n", ms) }}
	case "cvc5":
		return &SolverProc{name: name, argv: []string{"cvc5", "--incremental", "--produce-models", "--lang=smt2"}, reset: "(reset)\n(set-logic ALL)\n",
			tmoOp: func(ms int) string { return fmt.Sprintf("(set-option :tlimit-per %d)\n", ms) }}
	case "cvc5iand":
		return &SolverProc{name: name, argv: []string{"cvc5", "--incremental", "--produce-models", "--lang=smt2", "--solve-bv-as-int=iand"}, reset: "(reset)\n(set-logic ALL)\n",
			tmoOp: func(ms int) string { return fmt.Sprintf("(set-option :tlimit-per %d)\n", ms) }}
	case "cvc5sum":
		return &SolverProc{name: name, argv: []string{"cvc5", "--incremental", "--produce-models", "--lang=smt2", "--solve-bv-as-int=sum"}, reset: "(reset)\n(set-logic ALL)\n",
			tmoOp: func(ms int) string { return fmt.Sprintf("(set-option :tlimit-per %d)\n", ms) }}
	}
	panic("unknown solver " + name)
}

func (sp *SolverProc) start() error {
	sp.mu.Lock()
	defer sp.mu.Unlock()
	// address-space limit of 4 GiB per solver process; the solver dies with its parent
	sp.cmd = exec.Command("sh", "-c", "ulimit -v 4194304; exec \"$@\"", "sh")
	sp.cmd.Args = append(sp.cmd.Args, sp.argv...)
	sp.cmd.SysProcAttr = &syscall.SysProcAttr{Pdeathsig: syscall.SIGKILL}
	var err error
	sp.in, err = sp.cmd.StdinPipe()
	if err != nil {
		return err
	}
	o, err := sp.cmd.StdoutPipe()
	if err != nil {
		return err
	}
	sp.cmd.Stderr = nil
	if err := sp.cmd.Start(); err != nil {
		return err
	}
	sp.out = bufio.NewReaderSize(o, 1<<20)
	sp.lines = make(chan string, 1024)
	go func(r *bufio.Reader, ch chan string) {
		for {
			l, err := r.ReadString('\n')
			if l != "" {
				ch <- strings.TrimRight(l, "\n")
			}
			if err != nil {
				close(ch)
				return
			}
		}
	}(sp.out, sp.lines)
	return nil
}

func (sp *SolverProc) kill() {
	sp.mu.Lock()
	cmd := sp.cmd
	sp.cmd = nil
	sp.mu.Unlock()
	if cmd != nil && cmd.Process != nil {
		cmd.Process.Kill()
		cmd.Wait()
	}
}

// exchange writes text followed by an echo sentinel and collects the lines printed before it.
func (sp *SolverProc) exchange(text string, tmoMs int) ([]string, bool) {
	sp.nq++
	sentinel := "gosym-done-" + strconv.Itoa(sp.nq)
	if _, err := io.WriteString(sp.in, text+"(echo \""+sentinel+"\")\n"); err != nil {
		sp.kill()
		return nil, false
	}
	deadline := time.After(time.Duration(tmoMs)*time.Millisecond + 10*time.Second)
	var out []string
	for {
		select {
		case l, ok := <-sp.lines:
			if !ok {
				sp.kill()
				return out, false
			}
			l = strings.TrimSpace(l)
			if l == sentinel || l == "\""+sentinel+"\"" {
				return out, true
			}
			if l != "" {
				out = append(out, l)
			}
		case <-deadline:
			sp.kill()
			return out, false
		}
	}
}

// run sends one self-contained query. Returns status (sat/unsat/unknown) and the
// raw get-value text (only requested after sat).
func (sp *SolverProc) run(body, getValue string, tmoMs int) (string, string) {
	if sp.cmd == nil || sp.nq > 800 {
		sp.kill()
		sp.nq = 0
		if err := sp.start(); err != nil {
			return "unknown", ""
		}
	}
	lines, ok := sp.exchange(sp.reset+sp.tmoOp(tmoMs)+body, tmoMs)
	if !ok {
		return "unknown", ""
	}
	status := ""
	for _, l := range lines {
		if strings.HasPrefix(l, "(error") {
			return "unknown", l
		}
		if status == "" && (l == "sat" || l == "unsat" || l == "unknown" || l == "timeout") {
			status = l
		}
	}
	if status == "" || status == "timeout" {
		status = "unknown"
	}
	if status != "sat" || getValue == "" {
		return status, ""
	}
	lines, ok = sp.exchange(getValue, 60000)
	if !ok {
		return "unknown", ""
	}
	for _, l := range lines {
		if strings.HasPrefix(l, "(error") {
			return "unknown", l
		}
	}
	return "sat", strings.Join(lines, "\n")
}

// interrupt ends the solver process from another goroutine; the reader notices EOF.
func (sp *SolverProc) interrupt() {
	sp.mu.Lock()
	defer sp.mu.Unlock()
	if sp.cmd != nil && sp.cmd.Process != nil {
		sp.cmd.Process.Kill()
	}
}

func (so *Solver) proc(name string) *SolverProc {
	so.mu.Lock()
	defer so.mu.Unlock()
	p, ok := so.procs[name]
	if !ok {
		p = solverSpec(name)
		so.procs[name] = p
	}
	return p
}

func (so *Solver) Close() {
	for _, p := range so.procs {
		p.kill()
	}
}

type Query struct {
	asserts []*Term
	want    []*Term // terms whose model values are requested (vars or any term)
	tmoMs   int
	stages  [][]string // solver portfolio; nil = default
	purpose string
}

type Answer struct {
	status string
	model  map[string]uint64 // by var name
	vals   map[int]uint64    // by term id (for wanted non-var terms)
	solver string
	secs   float64
}

func (so *Solver) Check(q Query) Answer {
	p := NewPrinter()
	for _, t := range q.asserts {
		if t.isFalse() {
			return Answer{status: "unsat", solver: "simplifier"}
		}
	}
	for _, t := range q.asserts {
		p.emit(t)
	}
	for _, t := range q.want {
		p.emit(t)
	}
	for _, t := range q.asserts {
		if !t.isTrue() {
			fmt.Fprintf(&p.sb, "(assert %s)\n", p.ref(t))
		}
	}
	p.sb.WriteString("(check-sat)\n")
	body := p.sb.String()
	var gv strings.Builder
	var wantVars []string
	// always ask for every declared input variable: the replay needs them all
	for _, n := range p.order {
		wantVars = append(wantVars, n)
	}
	if len(wantVars) > 0 || len(q.want) > 0 {
		gv.WriteString("(get-value (")
		for _, n := range wantVars {
			gv.WriteString(smtName(n) + " ")
		}
		for _, t := range q.want {
			if t.op != "var" && !t.isConst() && !t.isBoolConst() {
				gv.WriteString(p.ref(t) + " ")
			}
		}
		gv.WriteString("))\n")
	}
	// portfolio: a list of stages; the solvers of one stage race, the first definite answer wins
	stages := q.stages
	if stages == nil {
		if hasHardArith(q.asserts) {
			stages = [][]string{{"z3new", "cvc5iand", "cvc5sum"}, {"cvc5"}}
		} else {
			stages = [][]string{{"z3new"}, {"cvc5"}}
		}
	}
	if v := os.Getenv("GOSYM_SOLVER"); v != "" {
		stages = nil
		for _, st := range strings.Split(v, ";") {
			stages = append(stages, strings.Split(st, ","))
		}
	}
	tmo := q.tmoMs
	if tmo == 0 {
		tmo = 20000
	}
	cacheKey := ""
	if len(q.want) == 0 && strings.HasPrefix(q.purpose, "feas") {
		cacheKey = body
		if st, ok := so.cache[cacheKey]; ok {
			so.stats.CacheHits++
			return Answer{status: st, solver: "cache"}
		}
	}
	var ans Answer
	type raceRes struct {
		name     string
		st, rest string
		d        float64
	}
	for si, stage := range stages {
		ch := make(chan raceRes, len(stage))
		for _, name := range stage {
			go func(name string) {
				t0 := time.Now()
				st, rest := so.proc(name).run(body, gv.String(), tmo)
				ch <- raceRes{name, st, rest, time.Since(t0).Seconds()}
			}(name)
		}
		decided := false
		for k := 0; k < len(stage); k++ {
			r := <-ch
			so.stats.Queries++
			so.stats.BySolver[r.name]++
			so.stats.TimeBy[r.name] += r.d
			if so.dump != "" {
				os.WriteFile(fmt.Sprintf("%s/q%05d-%s-%s.smt2", so.dump, so.stats.Queries, r.name, r.st), []byte(body+gv.String()), 0644)
			}
			if debugOn {
				fmt.Fprintf(os.Stderr, "  [solver %s] %s nodes=%d bytes=%d %.2fs %s\n", r.name, q.purpose, p.nodes, len(body), r.d, r.st)
			}
			if decided {
				continue
			}
			if r.st == "sat" {
				m, v := parseValues(r.rest, p, q.want)
				if m == nil {
					continue
				}
				ans = Answer{status: "sat", solver: r.name, secs: r.d, model: m, vals: v}
			} else if r.st == "unsat" {
				ans = Answer{status: "unsat", solver: r.name, secs: r.d}
			} else {
				continue
			}
			decided = true
			so.stats.TimeS += r.d
			if r.d > so.stats.MaxQueryS {
				so.stats.MaxQueryS = r.d
			}
			// stop the losers
			for _, other := range stage {
				if other != r.name {
					so.proc(other).interrupt()
				}
			}
		}
		if decided {
			if ans.status == "sat" {
				so.stats.Sat++
			} else {
				so.stats.Unsat++
			}
			break
		}
		so.stats.TimeS += float64(tmo) / 1000
		if si == len(stages)-1 {
			so.stats.Unknown++
			ans = Answer{status: "unknown", solver: strings.Join(stage, "+")}
		}
	}
	if cacheKey != "" && ans.status != "unknown" {
		so.cache[cacheKey] = ans.status
	}
	return ans
}

// parseValues reads "((name #x..) (n12 #b...) ...)" possibly spread over lines.
func parseValues(txt string, p *Printer, want []*Term) (map[string]uint64, map[int]uint64) {
	model := map[string]uint64{}
	vals := map[int]uint64{}
	if len(p.order) == 0 && len(want) == 0 {
		return model, vals
	}
	toks := tokenize(txt)
	// expect ( ( name value ) ... )
	i := 0
	next := func() string {
		if i < len(toks) {
			i++
			return toks[i-1]
		}
		return ""
	}
	if next() != "(" {
		return nil, nil
	}
	for i < len(toks) {
		t := next()
		if t == ")" {
			break
		}
		if t != "(" {
			return nil, nil
		}
		name := next()
		v := next()
		var val uint64
		switch {
		case v == "true":
			val = 1
		case v == "false":
			val = 0
		case strings.HasPrefix(v, "#x"):
			val, _ = strconv.ParseUint(v[2:], 16, 64)
		case strings.HasPrefix(v, "#b"):
			val, _ = strconv.ParseUint(v[2:], 2, 64)
		case v == "(":
			// (_ bvN w)
			if next() != "_" {
				return nil, nil
			}
			bv := next()
			next()
			if next() != ")" {
				return nil, nil
			}
			val, _ = strconv.ParseUint(strings.TrimPrefix(bv, "bv"), 10, 64)
		default:
			return nil, nil
		}
		if next() != ")" {
			return nil, nil
		}
		name = strings.TrimPrefix(strings.Trim(name, "|"), "v:")
		if _, ok := p.decl[name]; ok {
			model[name] = val
		} else if strings.HasPrefix(name, "n") {
			if id, err := strconv.Atoi(name[1:]); err == nil {
				vals[id] = val
			}
		}
	}
	return model, vals
}

func tokenize(s string) []string {
	var out []string
	i := 0
	for i < len(s) {
		c := s[i]
		switch {
		case c == '(' || c == ')':
			out = append(out, string(c))
			i++
		case c == ' ' || c == '\n' || c == '\t' || c == '\r':
			i++
		case c == '|':
			j := i + 1
			for j < len(s) && s[j] != '|' {
				j++
			}
			out = append(out, s[i:j+1])
			i = j + 1
		default:
			j := i
			for j < len(s) && !strings.ContainsRune("() \n\t\r", rune(s[j])) {
				j++
			}
			out = append(out, s[i:j])
			i = j
		}
	}
	return out
}

var debugOn = os.Getenv("GOSYM_DEBUG") != ""

func (a *SolverStats) add(b SolverStats) {
	a.Queries += b.Queries
	a.Sat += b.Sat
	a.Unsat += b.Unsat
	a.Unknown += b.Unknown
	a.TimeS += b.TimeS
	a.CacheHits += b.CacheHits
	if b.MaxQueryS > a.MaxQueryS {
		a.MaxQueryS = b.MaxQueryS
	}
	for k, v := range b.BySolver {
		a.BySolver[k] += v
	}
	for k, v := range b.TimeBy {
		a.TimeBy[k] += v
	}
}

// IncSession is an incremental z3 session for many small goals over one path condition:
// the definitions and the path condition are sent once, every goal is checked under push/pop.
// Anything but a clean sat/unsat answer makes the caller fall back to a self-contained query.
type IncSession struct {
	sp      *SolverProc
	p       *Printer
	so      *Solver
	dead    bool
	count   int
	pc      []*Term
	started bool
}

func (so *Solver) NewSession(pc []*Term) *IncSession {
	return &IncSession{sp: solverSpec("z3new"), p: NewPrinter(), so: so, pc: pc}
}

// start launches the solver and sends the path condition (on the first non-trivial goal).
func (is *IncSession) start() {
	is.started = true
	if err := is.sp.start(); err != nil {
		is.dead = true
		return
	}
	for _, t := range is.pc {
		is.p.emit(t)
	}
	for _, t := range is.pc {
		if !t.isTrue() {
			fmt.Fprintf(&is.p.sb, "(assert %s)\n", is.p.ref(t))
		}
	}
	text := "(set-option :produce-models true)\n" + is.p.sb.String()
	is.p.sb.Reset()
	lines, ok := is.sp.exchange(text, 60000)
	if !ok {
		is.dead = true
	}
	for _, l := range lines {
		if strings.HasPrefix(l, "(error") {
			is.dead = true
		}
	}
}

func (is *IncSession) Close() { is.sp.kill() }

// Check decides pc ∧ conds. ok=false means "no clean answer": use a standalone query.
func (is *IncSession) Check(conds []*Term, tmoMs int) (Answer, bool) {
	if is.dead {
		return Answer{}, false
	}
	for _, c := range conds {
		if c.isFalse() {
			return Answer{status: "unsat", solver: "simplifier"}, true
		}
	}
	if !is.started {
		is.start()
		if is.dead {
			return Answer{}, false
		}
	}
	t0 := time.Now()
	for _, c := range conds {
		is.p.emit(c)
	}
	var sb strings.Builder
	sb.WriteString(is.p.sb.String())
	is.p.sb.Reset()
	fmt.Fprintf(&sb, "(set-option :timeout %d)\n(push 1)\n", tmoMs)
	for _, c := range conds {
		if !c.isTrue() {
			fmt.Fprintf(&sb, "(assert %s)\n", is.p.ref(c))
		}
	}
	sb.WriteString("(check-sat)\n")
	lines, ok := is.sp.exchange(sb.String(), tmoMs)
	if !ok {
		is.dead = true
		return Answer{}, false
	}
	status := ""
	for _, l := range lines {
		if strings.HasPrefix(l, "(error") {
			is.dead = true
			is.sp.kill()
			return Answer{}, false
		}
		if status == "" && (l == "sat" || l == "unsat" || l == "unknown" || l == "timeout") {
			status = l
		}
	}
	ans := Answer{status: status, solver: "z3new-inc"}
	good := true
	if status == "sat" {
		var gv strings.Builder
		gv.WriteString("(get-value (")
		for _, n := range is.p.order {
			gv.WriteString(smtName(n) + " ")
		}
		gv.WriteString("))\n")
		if len(is.p.order) > 0 {
			vl, ok := is.sp.exchange(gv.String(), 60000)
			if !ok {
				is.dead = true
				return Answer{}, false
			}
			m, _ := parseValues(strings.Join(vl, "\n"), is.p, nil)
			if m == nil {
				good = false
			}
			ans.model = m
		} else {
			ans.model = map[string]uint64{}
		}
	} else if status != "unsat" {
		good = false
	}
	if _, ok := is.sp.exchange("(pop 1)\n", 10000); !ok {
		is.dead = true
	}
	ans.secs = time.Since(t0).Seconds()
	is.count++
	is.so.stats.Queries++
	is.so.stats.BySolver["z3new-inc"]++
	is.so.stats.TimeBy["z3new-inc"] += ans.secs
	is.so.stats.TimeS += ans.secs
	if ans.secs > is.so.stats.MaxQueryS {
		is.so.stats.MaxQueryS = ans.secs
	}
	if !good {
		return Answer{}, false
	}
	if status == "sat" {
		is.so.stats.Sat++
	} else {
		is.so.stats.Unsat++
	}
	if debugOn {
		fmt.Fprintf(os.Stderr, "  [solver z3new-inc] %.2fs %s\n", ans.secs, status)
	}
	return ans, true
}
