package main

import (
	"fmt"
	"go/types"

	"golang.org/x/tools/go/ssa"
)

type Value interface{}
type PathEl struct {
	field int
	idx   *Term // non-nil: array element
}
type Ptr struct {
	obj  int
	path []PathEl
}
type SliceV struct {
	obj             int
	path            []PathEl
	off, len_, cap_ *Term
	scal            bool // elements are scalars (mergeable with symbolic length)
}
type ArrV struct{ cells []Value }
type StructV struct{ fields []Value }
type TupleV []Value

// ErrV is a value of static type `error`: a 32-bit code, 0 = nil. Every distinct
// error object has its own code, so identity comparisons are exact.
type ErrV struct{ code *Term }
type NilV struct{}

// FloatV is a concrete floating-point value (floats are supported on concrete operands only).
type FloatV struct{ f float64 }

// StrV is a string of concrete length whose bytes may be symbolic; alt != nil makes
// it a guarded choice between two strings (merge of strings of different length).
type StrV struct {
	b   []*Term
	alt *strAlt
}
type strAlt struct {
	c    *Term
	x, y StrV
}

func strLen(s StrV) *Term {
	if s.alt != nil {
		return Ite(s.alt.c, strLen(s.alt.x), strLen(s.alt.y))
	}
	return C(64, uint64(len(s.b)))
}

func strConcat(a, b StrV) StrV {
	if a.alt != nil {
		return StrV{alt: &strAlt{a.alt.c, strConcat(a.alt.x, b), strConcat(a.alt.y, b)}}
	}
	if b.alt != nil {
		return StrV{alt: &strAlt{b.alt.c, strConcat(a, b.alt.x), strConcat(a, b.alt.y)}}
	}
	return StrV{b: append(append([]*Term(nil), a.b...), b.b...)}
}

// strAt returns s[idx] (arbitrary where out of range) for a 64-bit index term.
func strAt(s StrV, idx *Term) *Term {
	if s.alt != nil {
		return Ite(s.alt.c, strAt(s.alt.x, idx), strAt(s.alt.y, idx))
	}
	r := C(8, 0)
	for i := len(s.b) - 1; i >= 0; i-- {
		r = Ite(Cmp("eq", idx, C(64, uint64(i))), s.b[i], r)
	}
	return r
}

func (s StrV) plain(what string) StrV {
	if s.alt != nil {
		panic(engineErr("%s on a string that is a merge of strings of different length", what))
	}
	return s
}

type FuncV struct{ fn *ssa.Function }
type ClosureV struct {
	fn   *ssa.Function
	bind []Value
}
type IfaceV struct {
	typ types.Type
	val Value
}
type MapRef struct{ obj int }
type MapV struct{ keys, vals []Value }
type IterRef struct{ obj int }
type IterV struct {
	keys, vals []Value
	pos        int
}

func mkStr(s string) StrV {
	b := make([]*Term, len(s))
	for i := 0; i < len(s); i++ {
		b[i] = C(8, uint64(s[i]))
	}
	return StrV{b: b}
}
func (s StrV) concrete() (string, bool) {
	if s.alt != nil {
		return "", false
	}
	out := make([]byte, len(s.b))
	for i, t := range s.b {
		if !t.isConst() {
			return "", false
		}
		out[i] = byte(t.val)
	}
	return string(out), true
}
func (s StrV) String() string {
	if s.alt != nil {
		return "<merged string>"
	}
	out := make([]byte, len(s.b))
	for i, t := range s.b {
		if !t.isConst() {
			out[i] = '?'
		} else {
			out[i] = byte(t.val)
		}
	}
	return string(out)
}

// ---------- heap (layered, copy on write)

type Heap struct {
	parent *Heap
	m      map[int]Value
	depth  int
}

func (h *Heap) get(id int) (Value, bool) {
	for x := h; x != nil; x = x.parent {
		if v, ok := x.m[id]; ok {
			return v, true
		}
	}
	return nil, false
}

func (h *Heap) flatten() *Heap {
	n := &Heap{m: map[int]Value{}}
	var chain []*Heap
	for x := h; x != nil; x = x.parent {
		chain = append(chain, x)
	}
	for i := len(chain) - 1; i >= 0; i-- {
		for k, v := range chain[i].m {
			n.m[k] = v
		}
	}
	return n
}

type State struct {
	id      int
	pc      []*Term
	heap    *Heap
	ctr     map[string]int // per-name counters of input intrinsics (copy on write)
	ctrOwn  bool
	facts   map[int]bool // truth of hash-consed boolean terms implied by the path condition (copy on write)
	factOwn bool
	kpID    string // known-panic attribution (vrt.PanicKnown)
	kpCond  *Term
	nchoose int
}

func (s *State) get(id int) Value {
	v, ok := s.heap.get(id)
	if !ok {
		panic(fmt.Sprintf("heap: no object %d", id))
	}
	return v
}
func (s *State) has(id int) bool { _, ok := s.heap.get(id); return ok }
func (s *State) set(id int, v Value) {
	s.heap.m[id] = v
}

func (e *Exec) newState() *State {
	e.nextSt++
	return &State{id: e.nextSt, heap: &Heap{m: map[int]Value{}}}
}

func (s *State) fork(e *Exec) *State {
	e.nextSt++
	e.states++
	if len(s.heap.m) > 0 || s.heap.parent == nil {
		base := s.heap
		if base.depth > 40 {
			base = base.flatten()
		}
		s.heap = &Heap{parent: base, m: map[int]Value{}, depth: base.depth + 1}
	}
	n := &State{id: e.nextSt, heap: &Heap{parent: s.heap.parent, m: map[int]Value{}, depth: s.heap.depth}}
	n.pc = append(make([]*Term, 0, len(s.pc)+4), s.pc...)
	n.ctr = s.ctr
	s.ctrOwn = false
	n.facts = s.facts
	s.factOwn = false
	n.kpID, n.kpCond, n.nchoose = s.kpID, s.kpCond, s.nchoose
	return n
}

func (s *State) bump(name string) int {
	if !s.ctrOwn {
		m := make(map[string]int, len(s.ctr)+1)
		for k, v := range s.ctr {
			m[k] = v
		}
		s.ctr = m
		s.ctrOwn = true
	}
	k := s.ctr[name]
	s.ctr[name] = k + 1
	return k
}

func (s *State) assume(c *Term) {
	if !c.isTrue() {
		s.pc = append(s.pc, c)
		s.learn(c, true, 0)
	}
}

func (s *State) setFact(t *Term, v bool) {
	if !s.factOwn {
		m := make(map[int]bool, len(s.facts)+4)
		for k, x := range s.facts {
			m[k] = x
		}
		s.facts = m
		s.factOwn = true
	}
	s.facts[t.id] = v
}

// learn records the truth value of c and of the sub-formulas it determines.
func (s *State) learn(c *Term, v bool, depth int) {
	if c.isBoolConst() || depth > 6 {
		return
	}
	s.setFact(c, v)
	switch c.op {
	case "not":
		s.learn(c.args[0], !v, depth+1)
	case "and":
		if v {
			s.learn(c.args[0], true, depth+1)
			s.learn(c.args[1], true, depth+1)
		}
	case "or":
		if !v {
			s.learn(c.args[0], false, depth+1)
			s.learn(c.args[1], false, depth+1)
		}
	}
}

// decide evaluates c under the recorded facts: 1 true, 0 false, -1 unknown.
func (s *State) decide(c *Term, depth int) int {
	if c.isTrue() {
		return 1
	}
	if c.isFalse() {
		return 0
	}
	if v, ok := s.facts[c.id]; ok {
		if v {
			return 1
		}
		return 0
	}
	if depth > 4 {
		return -1
	}
	switch c.op {
	case "not":
		if r := s.decide(c.args[0], depth+1); r >= 0 {
			return 1 - r
		}
	case "and":
		a, b := s.decide(c.args[0], depth+1), s.decide(c.args[1], depth+1)
		if a == 0 || b == 0 {
			return 0
		}
		if a == 1 && b == 1 {
			return 1
		}
	case "or":
		a, b := s.decide(c.args[0], depth+1), s.decide(c.args[1], depth+1)
		if a == 1 || b == 1 {
			return 1
		}
		if a == 0 && b == 0 {
			return 0
		}
	}
	return -1
}

func (e *Exec) alloc(s *State, root Value) int {
	e.nextObj++
	s.set(e.nextObj, root)
	return e.nextObj
}

// ---------- paths

func (e *Exec) iteChain(cells []Value, idx *Term) Value {
	if idx.isConst() {
		if idx.val >= uint64(len(cells)) {
			panic(engineErr("iteChain: constant index out of range"))
		}
		return cells[idx.val]
	}
	if vs, ok := valueSet(idx, 16); ok {
		var r Value
		for _, v := range vs {
			if v >= uint64(len(cells)) {
				continue
			}
			if r == nil {
				r = cells[v]
			} else {
				m, ok := mergeValue(Cmp("eq", idx, C(idx.w, v)), cells[v], r)
				if !ok {
					panic(engineErr("symbolic index into cells that cannot be merged"))
				}
				r = m
			}
		}
		if r == nil {
			panic(engineErr("iteChain: empty value set"))
		}
		return r
	}
	lo, hi := idx.lo, idx.hi
	if hi >= uint64(len(cells)) {
		hi = uint64(len(cells)) - 1
	}
	if lo > hi {
		lo = hi
	}
	r := cells[lo]
	for i := lo + 1; i <= hi; i++ {
		m, ok := mergeValue(Cmp("eq", idx, C(idx.w, i)), cells[i], r)
		if !ok {
			panic(engineErr("symbolic index into cells that cannot be merged"))
		}
		r = m
	}
	return r
}

func (e *Exec) getPath(v Value, path []PathEl) Value {
	for _, el := range path {
		if el.idx != nil {
			v = e.iteChain(v.(ArrV).cells, el.idx)
		} else {
			v = v.(StructV).fields[el.field]
		}
	}
	return v
}

func (e *Exec) setPath(v Value, path []PathEl, nv Value) Value {
	if len(path) == 0 {
		return nv
	}
	el := path[0]
	if el.idx == nil {
		st := v.(StructV)
		nf := append([]Value(nil), st.fields...)
		nf[el.field] = e.setPath(nf[el.field], path[1:], nv)
		return StructV{nf}
	}
	arr := v.(ArrV)
	nc := append([]Value(nil), arr.cells...)
	if el.idx.isConst() {
		nc[el.idx.val] = e.setPath(nc[el.idx.val], path[1:], nv)
		return ArrV{nc}
	}
	lo, hi := el.idx.lo, el.idx.hi
	if hi >= uint64(len(nc)) {
		hi = uint64(len(nc)) - 1
	}
	var set map[uint64]bool
	if vs, ok := valueSet(el.idx, 16); ok {
		set = map[uint64]bool{}
		for _, v := range vs {
			set[v] = true
		}
	}
	for i := lo; i <= hi && i < uint64(len(nc)); i++ {
		if set != nil && !set[i] {
			continue
		}
		m, ok := mergeValue(Cmp("eq", el.idx, C(el.idx.w, i)), e.setPath(nc[i], path[1:], nv), nc[i])
		if !ok {
			panic(engineErr("symbolic-index store of a value that cannot be merged"))
		}
		nc[i] = m
	}
	return ArrV{nc}
}

func (e *Exec) load(s *State, p Ptr) Value     { return e.getPath(s.get(p.obj), p.path) }
func (e *Exec) store(s *State, p Ptr, v Value) { s.set(p.obj, e.setPath(s.get(p.obj), p.path, v)) }
func ext(path []PathEl, el PathEl) []PathEl    { return append(append([]PathEl(nil), path...), el) }

func (e *Exec) cellsOf(s *State, sl SliceV) []Value {
	return e.getPath(s.get(sl.obj), sl.path).(ArrV).cells
}

// ---------- equality / merging of values

func samePath(a, b []PathEl) bool {
	if len(a) != len(b) {
		return false
	}
	for i := range a {
		if a[i] != b[i] {
			return false
		}
	}
	return true
}

func sameValue(a, b Value) bool {
	switch x := a.(type) {
	case *Term:
		y, ok := b.(*Term)
		return ok && x == y
	case Ptr:
		y, ok := b.(Ptr)
		return ok && x.obj == y.obj && samePath(x.path, y.path)
	case SliceV:
		y, ok := b.(SliceV)
		return ok && x.obj == y.obj && samePath(x.path, y.path) && x.off == y.off && x.len_ == y.len_ && x.cap_ == y.cap_
	case ErrV:
		y, ok := b.(ErrV)
		return ok && x.code == y.code
	case NilV:
		_, ok := b.(NilV)
		return ok
	case FloatV:
		y, ok := b.(FloatV)
		return ok && x.f == y.f
	case StrV:
		y, ok := b.(StrV)
		if !ok {
			return false
		}
		if x.alt != nil || y.alt != nil {
			return x.alt == y.alt
		}
		if len(x.b) != len(y.b) {
			return false
		}
		for i := range x.b {
			if x.b[i] != y.b[i] {
				return false
			}
		}
		return true
	case FuncV:
		y, ok := b.(FuncV)
		return ok && x.fn == y.fn
	case MapRef:
		y, ok := b.(MapRef)
		return ok && x == y
	case IterRef:
		y, ok := b.(IterRef)
		return ok && x == y
	case IfaceV:
		y, ok := b.(IfaceV)
		return ok && types.Identical(x.typ, y.typ) && sameValue(x.val, y.val)
	case ClosureV:
		y, ok := b.(ClosureV)
		if !ok || x.fn != y.fn {
			return false
		}
		return sameList(x.bind, y.bind)
	case ArrV:
		y, ok := b.(ArrV)
		return ok && sameList(x.cells, y.cells)
	case StructV:
		y, ok := b.(StructV)
		return ok && sameList(x.fields, y.fields)
	case TupleV:
		y, ok := b.(TupleV)
		return ok && sameList(x, y)
	case MapV:
		y, ok := b.(MapV)
		return ok && sameList(x.keys, y.keys) && sameList(x.vals, y.vals)
	case IterV:
		y, ok := b.(IterV)
		return ok && x.pos == y.pos && sameList(x.keys, y.keys) && sameList(x.vals, y.vals)
	case *ssa.Builtin:
		y, ok := b.(*ssa.Builtin)
		return ok && x == y
	}
	return false
}

func sameList(x, y []Value) bool {
	if len(x) != len(y) {
		return false
	}
	if len(x) > 0 && &x[0] == &y[0] {
		return true
	}
	for i := range x {
		if !sameValue(x[i], y[i]) {
			return false
		}
	}
	return true
}

func mergeList(c *Term, x, y []Value) ([]Value, bool) {
	if len(x) != len(y) {
		return nil, false
	}
	if len(x) > 0 && &x[0] == &y[0] {
		return x, true
	}
	r := make([]Value, len(x))
	for i := range x {
		v, ok := mergeValue(c, x[i], y[i])
		if !ok {
			return nil, false
		}
		r[i] = v
	}
	return r, true
}

// mergeValue builds ite(c, a, b) structurally; false if the two values have no common shape.
func mergeValue(c *Term, a, b Value) (Value, bool) {
	if sameValue(a, b) {
		return a, true
	}
	switch x := a.(type) {
	case *Term:
		y, ok := b.(*Term)
		if !ok || x.w != y.w {
			return nil, false
		}
		return Ite(c, x, y), true
	case ErrV:
		y, ok := b.(ErrV)
		if !ok {
			return nil, false
		}
		return ErrV{Ite(c, x.code, y.code)}, true
	case Ptr:
		y, ok := b.(Ptr)
		if !ok || x.obj != y.obj || len(x.path) != len(y.path) {
			return nil, false
		}
		np := make([]PathEl, len(x.path))
		for i := range x.path {
			p, q := x.path[i], y.path[i]
			if p == q {
				np[i] = p
			} else if p.idx != nil && q.idx != nil && p.idx.w == q.idx.w {
				np[i] = PathEl{idx: Ite(c, p.idx, q.idx)}
			} else {
				return nil, false
			}
		}
		return Ptr{x.obj, np}, true
	case SliceV:
		y, ok := b.(SliceV)
		if !ok || x.obj != y.obj || !samePath(x.path, y.path) {
			return nil, false
		}
		if !x.scal && (x.len_ != y.len_ || x.off != y.off) {
			return nil, false
		}
		return SliceV{x.obj, x.path, Ite(c, x.off, y.off), Ite(c, x.len_, y.len_), Ite(c, x.cap_, y.cap_), x.scal}, true
	case StrV:
		y, ok := b.(StrV)
		if !ok {
			return nil, false
		}
		if x.alt != nil || y.alt != nil || len(x.b) != len(y.b) {
			return StrV{alt: &strAlt{c, x, y}}, true
		}
		r := make([]*Term, len(x.b))
		for i := range r {
			r[i] = Ite(c, x.b[i], y.b[i])
		}
		return StrV{b: r}, true
	case ArrV:
		y, ok := b.(ArrV)
		if !ok {
			return nil, false
		}
		r, ok := mergeList(c, x.cells, y.cells)
		return ArrV{r}, ok
	case StructV:
		y, ok := b.(StructV)
		if !ok {
			return nil, false
		}
		r, ok := mergeList(c, x.fields, y.fields)
		return StructV{r}, ok
	case TupleV:
		y, ok := b.(TupleV)
		if !ok {
			return nil, false
		}
		r, ok := mergeList(c, x, y)
		return TupleV(r), ok
	case IfaceV:
		y, ok := b.(IfaceV)
		if !ok || !types.Identical(x.typ, y.typ) {
			return nil, false
		}
		v, ok := mergeValue(c, x.val, y.val)
		return IfaceV{x.typ, v}, ok
	case MapV:
		y, ok := b.(MapV)
		if !ok || !sameList(x.keys, y.keys) {
			return nil, false
		}
		r, ok := mergeList(c, x.vals, y.vals)
		return MapV{x.keys, r}, ok
	case ClosureV:
		y, ok := b.(ClosureV)
		if !ok || x.fn != y.fn {
			return nil, false
		}
		r, ok := mergeList(c, x.bind, y.bind)
		return ClosureV{x.fn, r}, ok
	}
	return nil, false
}

func conj(ts []*Term) *Term {
	r := True()
	for _, t := range ts {
		r = And(r, t)
	}
	return r
}

// does merging a and b turn some concrete scalar into a symbolic one?
func concConflict(a, b Value) bool {
	switch x := a.(type) {
	case *Term:
		y, ok := b.(*Term)
		return ok && x != y && x.isConst() && y.isConst()
	case ErrV:
		return false
	case ArrV:
		if y, ok := b.(ArrV); ok && len(x.cells) == len(y.cells) {
			if len(x.cells) > 0 && &x.cells[0] == &y.cells[0] {
				return false
			}
			for i := range x.cells {
				if concConflict(x.cells[i], y.cells[i]) {
					return true
				}
			}
		}
	case StructV:
		if y, ok := b.(StructV); ok && len(x.fields) == len(y.fields) {
			for i := range x.fields {
				if concConflict(x.fields[i], y.fields[i]) {
					return true
				}
			}
		}
	case SliceV:
		if y, ok := b.(SliceV); ok {
			return concConflict(x.off, y.off) || concConflict(x.len_, y.len_)
		}
	case TupleV:
		if y, ok := b.(TupleV); ok && len(x) == len(y) {
			for i := range x {
				if concConflict(x[i], y[i]) {
					return true
				}
			}
		}
	}
	return false
}

type engineError struct{ msg string }

func engineErr(f string, a ...interface{}) engineError {
	return engineError{fmt.Sprintf(f, a...)}
}

func width(t types.Type) int {
	switch b := t.Underlying().(type) {
	case *types.Basic:
		switch b.Kind() {
		case types.Bool, types.UntypedBool:
			return 0
		case types.Int8, types.Uint8:
			return 8
		case types.Int16, types.Uint16:
			return 16
		case types.Int32, types.Uint32, types.UntypedRune:
			return 32
		case types.Int, types.Uint, types.Int64, types.Uint64, types.Uintptr, types.UntypedInt:
			return 64
		}
	}
	return -1
}
func signed(t types.Type) bool {
	if b, ok := t.Underlying().(*types.Basic); ok {
		return b.Info()&types.IsUnsigned == 0
	}
	return false
}
func isErrorType(t types.Type) bool {
	n, ok := t.(*types.Named)
	return ok && n.Obj().Pkg() == nil && n.Obj().Name() == "error"
}
func isScalarType(t types.Type) bool { return width(t) >= 0 }

func (e *Exec) zero(t types.Type) Value {
	if w := width(t); w >= 0 {
		if w == 0 {
			return False()
		}
		return C(w, 0)
	}
	switch u := t.Underlying().(type) {
	case *types.Basic:
		if u.Info()&types.IsString != 0 {
			return StrV{}
		}
		if u.Info()&types.IsFloat != 0 {
			return FloatV{0}
		}
		if u.Kind() == types.UnsafePointer || u.Kind() == types.UntypedNil {
			return NilV{}
		}
	case *types.Array:
		a := ArrV{cells: make([]Value, u.Len())}
		z := e.zero(u.Elem())
		for i := range a.cells {
			a.cells[i] = z
		}
		return a
	case *types.Struct:
		st := StructV{fields: make([]Value, u.NumFields())}
		for i := range st.fields {
			st.fields[i] = e.zero(u.Field(i).Type())
		}
		return st
	case *types.Pointer, *types.Slice, *types.Map, *types.Signature, *types.Chan:
		return NilV{}
	case *types.Interface:
		if isErrorType(t) {
			return ErrV{C(32, 0)}
		}
		return NilV{}
	case *types.Tuple:
		tv := make(TupleV, u.Len())
		for i := range tv {
			tv[i] = e.zero(u.At(i).Type())
		}
		return tv
	}
	panic(engineErr("zero: unsupported type %s", t.String()))
}
