package main

import (
	"fmt"
	"os"
)

func main() {
	if len(os.Args) < 2 {
		fmt.Println("usage: gosym check -prop <id> [-tier quick|thorough] | gosym worker <cfg>")
		os.Exit(2)
	}
	switch os.Args[1] {
	case "check":
		os.Exit(checkMain(os.Args[2:]))
	case "worker":
		workerMain(os.Args[2])
	default:
		fmt.Println("unknown command", os.Args[1])
		os.Exit(2)
	}
}
