package main

import (
	"fmt"
	"go/constant"
	"go/token"
	"go/types"
	"os"
	"sort"
	"strings"
	"sync/atomic"
	"time"

	"golang.org/x/tools/go/ssa"
)

type Frame struct {
	fn       *ssa.Function
	regs     map[ssa.Value]Value
	iters    map[*ssa.BasicBlock]int
	defers   []deferred
	havocked bool
	visits   map[*ssa.BasicBlock]int
}
type deferred struct {
	fn   Value
	args []Value
}

type Outcome struct {
	kind  int
	st    *State
	fr    *Frame
	vals  []Value
	msg   string
	site  string
	pkind string
}

const (
	OAt = iota
	ORet
	OPanic
	OStop // path ended (failed assumption, unwinding limit, split request)
)

// Obl is a proof obligation collected during execution.
type Obl struct {
	Kind    string // assert | panic | unwind | reach | known | alloc
	Harness string
	Msg     string
	Site    string
	KnownID string
	pc      []*Term
	cond    *Term // formula that must be UNSAT together with pc (assert: not c)
	kcond   *Term // for known-finding split
	want    []*Term
	obsN    []string
}

type Exec struct {
	deadline time.Time // exploration budget (zero: none)
	abort    int32     // set by the memory watchdog
	prog     *ssa.Program
	nextObj  int
	nextSt   int
	globals  map[*ssa.Global]int
	errCodes map[string]uint64
	errNames map[uint64]string
	ipdom    map[*ssa.Function]map[*ssa.BasicBlock]*ssa.BasicBlock
	loopExit map[*ssa.Function]map[*ssa.BasicBlock][]bool
	liveAt   map[*ssa.BasicBlock]map[ssa.Value]bool
	solver   *Solver

	// configuration of the current job
	harness         string
	choices         []int
	tier            int
	unwind          int
	known           map[string]bool
	maxAlloc        int
	unwindViolation bool
	stubCRC         bool

	// results of the current job
	obls      []*Obl
	split     *SplitReq
	funcs     map[string]bool
	inputs    []*Term
	observes  []obsRec
	instrs    int
	forks     int
	merges    int
	states    int
	pruned    int
	feasCalls int
	depth     int
	havoc     map[string]string
	havocUsed map[string]bool
	havocSeen map[string]bool
}

type obsRec struct {
	name string
	t    *Term
}

type SplitReq struct {
	Name   string `json:"name"`
	Lo, Hi int
}

func NewExec(prog *ssa.Program) *Exec {
	return &Exec{prog: prog, globals: map[*ssa.Global]int{}, errCodes: map[string]uint64{}, errNames: map[uint64]string{},
		ipdom: map[*ssa.Function]map[*ssa.BasicBlock]*ssa.BasicBlock{}, loopExit: map[*ssa.Function]map[*ssa.BasicBlock][]bool{},
		liveAt: map[*ssa.BasicBlock]map[ssa.Value]bool{}, funcs: map[string]bool{}, unwind: 2500, maxAlloc: 1 << 16}
}

func (fr *Frame) clone() *Frame {
	n := &Frame{fn: fr.fn, regs: make(map[ssa.Value]Value, len(fr.regs)+8), defers: fr.defers, havocked: fr.havocked}
	for k, v := range fr.regs {
		n.regs[k] = v
	}
	if len(fr.visits) > 0 {
		n.visits = make(map[*ssa.BasicBlock]int, len(fr.visits))
		for k, v := range fr.visits {
			n.visits[k] = v
		}
	}
	if len(fr.iters) > 0 {
		n.iters = make(map[*ssa.BasicBlock]int, len(fr.iters))
		for k, v := range fr.iters {
			n.iters[k] = v
		}
	}
	return n
}

func (e *Exec) errCode(name string) *Term {
	c, ok := e.errCodes[name]
	if !ok {
		c = uint64(len(e.errCodes) + 1)
		e.errCodes[name] = c
		e.errNames[c] = name
	}
	return C(32, c)
}

// ---------- feasibility

func (e *Exec) feasible(s *State, c *Term) bool {
	return e.feasibleP(s, c, "feas")
}

func (e *Exec) feasibleP(s *State, c *Term, purpose string) bool {
	if c.isTrue() {
		return true
	}
	if c.isFalse() {
		return false
	}
	e.feasCalls++
	a := e.solver.Check(Query{asserts: append(append([]*Term(nil), s.pc...), c), tmoMs: 10000, purpose: purpose})
	return a.status != "unsat"
}

func (e *Exec) feasiblePC(pc []*Term) bool {
	for _, t := range pc {
		if t.isFalse() {
			return false
		}
	}
	e.feasCalls++
	a := e.solver.Check(Query{asserts: pc, tmoMs: 10000, purpose: "feas-merge"})
	return a.status != "unsat"
}

type concVal struct {
	v  uint64
	st *State
}

// concretize enumerates the feasible values of t under s (forking s); the last
// alternative reuses s itself.
func (e *Exec) concretize(s *State, t *Term, limit int, what string) []concVal {
	if t.isConst() {
		return []concVal{{t.val, s}}
	}
	if vs, ok := valueSet(t, limit); ok {
		var out []concVal
		for _, v := range vs {
			c := Cmp("eq", t, C(t.w, v))
			if !e.feasible(s, c) {
				continue
			}
			s2 := s.fork(e)
			s2.assume(c)
			out = append(out, concVal{v, s2})
		}
		return out
	}
	var out []concVal
	excl := append([]*Term(nil), s.pc...)
	for {
		a := e.solver.Check(Query{asserts: excl, want: []*Term{t}, tmoMs: 20000, purpose: "concretize"})
		if a.status == "unsat" {
			break
		}
		if a.status != "sat" {
			panic(engineErr("concretize %s: solver %s", what, a.status))
		}
		var v uint64
		if t.op == "var" {
			v = a.model[t.name]
		} else {
			vv, ok := a.vals[t.id]
			if !ok {
				panic(engineErr("concretize %s: no model value", what))
			}
			v = vv
		}
		c := Cmp("eq", t, C(t.w, v))
		s2 := s.fork(e)
		s2.assume(c)
		out = append(out, concVal{v, s2})
		excl = append(excl, Not(c))
		if len(out) > limit {
			panic(engineErr("concretize %s: more than %d values", what, limit))
		}
	}
	return out
}

// ---------- post-dominators (small CFGs: set-based)

func (e *Exec) ipdoms(fn *ssa.Function) map[*ssa.BasicBlock]*ssa.BasicBlock {
	if m, ok := e.ipdom[fn]; ok {
		return m
	}
	n := len(fn.Blocks)
	exit := n
	succ := make([][]int, n+1)
	for _, b := range fn.Blocks {
		if len(b.Succs) == 0 {
			succ[b.Index] = append(succ[b.Index], exit)
		}
		for _, s := range b.Succs {
			succ[b.Index] = append(succ[b.Index], s.Index)
		}
	}
	pd := make([][]bool, n+1)
	for i := 0; i <= n; i++ {
		pd[i] = make([]bool, n+1)
		for j := range pd[i] {
			pd[i][j] = i != exit
		}
	}
	pd[exit][exit] = true
	for changed := true; changed; {
		changed = false
		for u := n - 1; u >= 0; u-- {
			nw := make([]bool, n+1)
			for i := range nw {
				nw[i] = true
			}
			for _, v := range succ[u] {
				for i := range nw {
					nw[i] = nw[i] && pd[v][i]
				}
			}
			nw[u] = true
			for i := range nw {
				if nw[i] != pd[u][i] {
					changed = true
				}
			}
			pd[u] = nw
		}
	}
	m := map[*ssa.BasicBlock]*ssa.BasicBlock{}
	for u := 0; u < n; u++ {
		for c := 0; c < n; c++ {
			if c == u || !pd[u][c] {
				continue
			}
			ok := true
			for d := 0; d <= n; d++ {
				if d != u && d != c && pd[u][d] && !pd[c][d] {
					ok = false
					break
				}
			}
			if ok {
				m[fn.Blocks[u]] = fn.Blocks[c]
				break
			}
		}
	}
	// Blocks without a post-dominator (their arms return) that sit inside a loop: join where the
	// paths that stay in the innermost loop meet again, treating loop exits as side exits.
	for _, b := range fn.Blocks {
		if m[b] != nil || len(b.Succs) < 2 {
			continue
		}
		if j := loopLocalJoin(fn, b); j != nil {
			m[b] = j
		}
	}
	e.ipdom[fn] = m
	return m
}

// loopLocalJoin computes the immediate post-dominator of b in the sub-graph of its innermost
// natural loop, where edges leaving the loop are dropped and back edges lead to a sink that
// stands for the loop header.
func loopLocalJoin(fn *ssa.Function, b *ssa.BasicBlock) *ssa.BasicBlock {
	var best map[*ssa.BasicBlock]bool
	var head *ssa.BasicBlock
	for _, t := range fn.Blocks {
		for _, h := range t.Succs {
			if !h.Dominates(t) {
				continue
			}
			body := map[*ssa.BasicBlock]bool{h: true}
			stack := []*ssa.BasicBlock{t}
			for len(stack) > 0 {
				x := stack[len(stack)-1]
				stack = stack[:len(stack)-1]
				if body[x] {
					continue
				}
				body[x] = true
				stack = append(stack, x.Preds...)
			}
			if body[b] && (best == nil || len(body) < len(best) || (head == h && len(body) > len(best))) {
				if head == h {
					for k := range best {
						body[k] = true
					}
				}
				best, head = body, h
			}
		}
	}
	if best == nil {
		return nil
	}
	n := len(fn.Blocks)
	sink := n
	succ := make([][]int, n+1)
	for x := range best {
		for _, sx := range x.Succs {
			if !best[sx] {
				continue
			}
			if sx == head {
				succ[x.Index] = append(succ[x.Index], sink)
			} else {
				succ[x.Index] = append(succ[x.Index], sx.Index)
			}
		}
	}
	// post-dominator sets over the body (iterative)
	pd := map[int]map[int]bool{}
	all := map[int]bool{sink: true}
	for x := range best {
		all[x.Index] = true
	}
	for x := range all {
		pd[x] = map[int]bool{}
		if x == sink {
			pd[x][sink] = true
			continue
		}
		for y := range all {
			pd[x][y] = true
		}
	}
	for changed := true; changed; {
		changed = false
		for x := range all {
			if x == sink {
				continue
			}
			nw := map[int]bool{}
			first := true
			for _, v := range succ[x] {
				if first {
					for y := range pd[v] {
						nw[y] = true
					}
					first = false
				} else {
					for y := range nw {
						if !pd[v][y] {
							delete(nw, y)
						}
					}
				}
			}
			if first {
				// no successor inside the loop: this block only leaves it
				nw = map[int]bool{}
			}
			nw[x] = true
			if len(nw) != len(pd[x]) {
				changed = true
				pd[x] = nw
			}
		}
	}
	// immediate post-dominator of b: the strict post-dominator that is post-dominated by all others
	cands := pd[b.Index]
	for c := range cands {
		if c == b.Index {
			continue
		}
		ok := true
		for d := range cands {
			if d != b.Index && d != c && !pd[c][d] {
				ok = false
				break
			}
		}
		if ok {
			if c == sink {
				return head
			}
			return fn.Blocks[c]
		}
	}
	return nil
}

// loopExitInfo reports, for a block inside a natural loop with a successor outside
// of it, which successors leave the loop (nil if b is not such a block).
func (e *Exec) loopExitInfo(b *ssa.BasicBlock) []bool {
	fn := b.Parent()
	m, ok := e.loopExit[fn]
	if !ok {
		m = map[*ssa.BasicBlock][]bool{}
		for _, t := range fn.Blocks {
			for _, h := range t.Succs {
				if !h.Dominates(t) {
					continue
				}
				body := map[*ssa.BasicBlock]bool{h: true}
				stack := []*ssa.BasicBlock{t}
				for len(stack) > 0 {
					x := stack[len(stack)-1]
					stack = stack[:len(stack)-1]
					if body[x] {
						continue
					}
					body[x] = true
					stack = append(stack, x.Preds...)
				}
				for x := range body {
					for k, sx := range x.Succs {
						if !body[sx] {
							if m[x] == nil {
								m[x] = make([]bool, len(x.Succs))
							}
							m[x][k] = true
						}
					}
				}
			}
		}
		e.loopExit[fn] = m
	}
	return m[b]
}

// live returns the values that may still be read once control is at block j.
func (e *Exec) live(j *ssa.BasicBlock) map[ssa.Value]bool {
	if m, ok := e.liveAt[j]; ok {
		return m
	}
	reach := map[*ssa.BasicBlock]bool{}
	st := []*ssa.BasicBlock{j}
	for len(st) > 0 {
		b := st[len(st)-1]
		st = st[:len(st)-1]
		if reach[b] {
			continue
		}
		reach[b] = true
		st = append(st, b.Succs...)
	}
	m := map[ssa.Value]bool{}
	for b := range reach {
		for _, in := range b.Instrs {
			var ops [16]*ssa.Value
			for _, op := range in.Operands(ops[:0]) {
				if *op != nil {
					m[*op] = true
				}
			}
		}
	}
	e.liveAt[j] = m
	return m
}

// ---------- values

func (e *Exec) globalObj(s *State, x *ssa.Global) int {
	id, ok := e.globals[x]
	if !ok {
		e.nextObj++
		id = e.nextObj
		e.globals[x] = id
	}
	if !s.has(id) {
		et := x.Type().(*types.Pointer).Elem()
		if isErrorType(et) {
			s.set(id, ErrV{e.errCode(x.String())})
		} else {
			s.set(id, e.zero(et))
		}
	}
	return id
}

func (e *Exec) constVal(x *ssa.Const) Value {
	t := x.Type()
	if x.Value == nil {
		return e.zero(t)
	}
	if w := width(t); w >= 0 {
		if w == 0 {
			return B(constant.BoolVal(x.Value))
		}
		if i, ok := constant.Int64Val(constant.ToInt(x.Value)); ok {
			return C(w, uint64(i))
		}
		u, _ := constant.Uint64Val(constant.ToInt(x.Value))
		return C(w, u)
	}
	if x.Value.Kind() == constant.String {
		return mkStr(constant.StringVal(x.Value))
	}
	if b, ok := t.Underlying().(*types.Basic); ok && b.Info()&types.IsFloat != 0 {
		f, _ := constant.Float64Val(constant.ToFloat(x.Value))
		return FloatV{f}
	}
	panic(engineErr("unsupported constant %s", x.String()))
}

func (e *Exec) val(fr *Frame, s *State, v ssa.Value) Value {
	switch x := v.(type) {
	case *ssa.Const:
		return e.constVal(x)
	case *ssa.Global:
		return Ptr{obj: e.globalObj(s, x)}
	case *ssa.Function:
		return FuncV{x}
	case *ssa.Builtin:
		return x
	}
	r, ok := fr.regs[v]
	if !ok {
		panic(engineErr("no value for %s in %s", v.Name(), fr.fn.String()))
	}
	return r
}

// ext64 widens an index/length operand to 64 bits according to the signedness of its Go type
// (a uint8 index of 182 is 182, not -74).
func (e *Exec) ext64(fr *Frame, s *State, v ssa.Value) *Term {
	t := term(e.val(fr, s, v))
	if signed(v.Type()) {
		return SExt(t, 64)
	}
	return ZExt(t, 64)
}

func term(v Value) *Term {
	t, ok := v.(*Term)
	if !ok {
		panic(engineErr("expected scalar, got %T", v))
	}
	return t
}

// ---------- merging of outcomes

func heapDiff(a, b *Heap) (ids map[int]bool, base *Heap) {
	anc := map[*Heap]bool{}
	for x := a; x != nil; x = x.parent {
		anc[x] = true
	}
	for x := b; x != nil; x = x.parent {
		if anc[x] {
			base = x
			break
		}
	}
	ids = map[int]bool{}
	for x := a; x != nil && x != base; x = x.parent {
		for k := range x.m {
			ids[k] = true
		}
	}
	for x := b; x != nil && x != base; x = x.parent {
		for k := range x.m {
			ids[k] = true
		}
	}
	return
}

func (e *Exec) merge(a, b Outcome, n int, live map[ssa.Value]bool) (Outcome, bool) {
	if a.kind != b.kind {
		return a, false
	}
	if (a.fr == nil) != (b.fr == nil) {
		return a, false
	}
	if a.st.kpID != b.st.kpID || a.st.kpCond != b.st.kpCond {
		return a, false
	}
	if a.fr != nil && len(a.fr.defers) != len(b.fr.defers) {
		return a, false
	}
	ca := conj(a.st.pc[n:])
	cb := conj(b.st.pc[n:])
	ids, base := heapDiff(a.st.heap, b.st.heap)
	newVals := map[int]Value{}
	for id := range ids {
		oa, okA := a.st.heap.get(id)
		ob, okB := b.st.heap.get(id)
		switch {
		case okA && okB:
			v, ok := mergeValue(ca, oa, ob)
			if !ok {
				return a, false
			}
			newVals[id] = v
		case okA:
			newVals[id] = oa
		default:
			newVals[id] = ob
		}
	}
	var nf *Frame
	if a.fr != nil {
		nf = &Frame{fn: a.fr.fn, regs: make(map[ssa.Value]Value, len(a.fr.regs)), defers: a.fr.defers, havocked: a.fr.havocked || b.fr.havocked}
		for k, va := range a.fr.regs {
			if live != nil && !live[k] {
				continue
			}
			vb, ok := b.fr.regs[k]
			if !ok {
				continue
			}
			v, ok := mergeValue(ca, va, vb)
			if !ok {
				return a, false
			}
			nf.regs[k] = v
		}
		if len(a.fr.visits) > 0 || len(b.fr.visits) > 0 {
			nf.visits = map[*ssa.BasicBlock]int{}
			for k, v := range a.fr.visits {
				nf.visits[k] = v
			}
			for k, v := range b.fr.visits {
				if v > nf.visits[k] {
					nf.visits[k] = v
				}
			}
		}
		if len(a.fr.iters) > 0 || len(b.fr.iters) > 0 {
			nf.iters = map[*ssa.BasicBlock]int{}
			for k, v := range a.fr.iters {
				nf.iters[k] = v
			}
			for k, v := range b.fr.iters {
				if v > nf.iters[k] {
					nf.iters[k] = v
				}
			}
		}
	}
	vs, ok := mergeList(ca, a.vals, b.vals)
	if !ok {
		return a, false
	}
	ns := e.newState()
	if base == nil {
		base = &Heap{m: map[int]Value{}}
	}
	ns.heap = &Heap{parent: base, m: newVals, depth: base.depth + 1}
	ns.pc = append(make([]*Term, 0, n+2), a.st.pc[:n]...)
	if d := Or(ca, cb); !d.isTrue() {
		ns.pc = append(ns.pc, d)
	}
	ns.kpID, ns.kpCond = a.st.kpID, a.st.kpCond
	ns.nchoose = a.st.nchoose
	if len(a.st.facts) > 0 && len(b.st.facts) > 0 {
		ns.facts = make(map[int]bool)
		ns.factOwn = true
		for k, v := range a.st.facts {
			if w, ok := b.st.facts[k]; ok && w == v {
				ns.facts[k] = v
			}
		}
	}
	// counters: max
	ns.ctr = a.st.ctr
	for k, v := range b.st.ctr {
		if v > ns.ctr[k] {
			if !ns.ctrOwn {
				m := map[string]int{}
				for k2, v2 := range ns.ctr {
					m[k2] = v2
				}
				ns.ctr = m
				ns.ctrOwn = true
			}
			ns.ctr[k] = v
		}
	}
	if !ns.ctrOwn {
		a.st.ctrOwn = false
	}
	e.merges++
	return Outcome{kind: a.kind, st: ns, fr: nf, vals: vs, msg: a.msg}, true
}

func (e *Exec) outcomeConflict(a, b Outcome, live map[ssa.Value]bool) bool {
	ids, _ := heapDiff(a.st.heap, b.st.heap)
	for id := range ids {
		oa, okA := a.st.heap.get(id)
		ob, okB := b.st.heap.get(id)
		if okA && okB && concConflict(oa, ob) {
			return true
		}
	}
	// registers and return values: only structured values (slice extents, aggregates) count;
	// a plain scalar that differs between two arms is the normal case and merges into an ite
	if a.fr != nil && b.fr != nil {
		for k, va := range a.fr.regs {
			if live != nil && !live[k] {
				continue
			}
			if _, scalar := va.(*Term); scalar {
				continue
			}
			if vb, ok := b.fr.regs[k]; ok && concConflict(va, vb) {
				return true
			}
		}
	}
	for i := range a.vals {
		if _, scalar := a.vals[i].(*Term); scalar || i >= len(b.vals) {
			continue
		}
		if concConflict(a.vals[i], b.vals[i]) {
			return true
		}
	}
	return false
}

func (e *Exec) mergeAll(outs []Outcome, n int, live map[ssa.Value]bool) []Outcome {
	if len(outs) >= 2 && len(outs) <= 6 {
		conflict := false
		for i := 1; i < len(outs) && !conflict; i++ {
			conflict = e.outcomeConflict(outs[0], outs[i], live)
		}
		if conflict {
			var keep []Outcome
			for _, o := range outs {
				if e.feasiblePC(o.st.pc) {
					keep = append(keep, o)
				} else {
					e.pruned++
				}
			}
			outs = keep
		}
	}
	var res []Outcome
	for _, o := range outs {
		done := false
		for i := range res {
			if m, ok := e.merge(res[i], o, n, live); ok {
				res[i] = m
				done = true
				break
			}
		}
		if !done {
			res = append(res, o)
		}
	}
	return res
}

// ---------- execution

func (e *Exec) call(s *State, fn *ssa.Function, args []Value, bind []Value) []Outcome {
	if fn.Blocks == nil {
		panic(engineErr("call of function without body: %s", fn.String()))
	}
	if e.depth > 200 {
		panic(engineErr("call depth exceeded at %s", fn.String()))
	}
	e.depth++
	defer func() { e.depth-- }()
	e.funcs[fn.String()] = true
	if debugOn && fn.Name() == "LookupPmtStreamType" {
		fmt.Fprintf(os.Stderr, "CALL %s(%s) pc=%d\n", fn.Name(), show(args[0].(*Term), 3), len(s.pc))
	}
	fr := &Frame{fn: fn, regs: make(map[ssa.Value]Value, 32)}
	if len(args) != len(fn.Params) {
		panic(engineErr("arity mismatch calling %s", fn.String()))
	}
	for i, p := range fn.Params {
		fr.regs[p] = args[i]
	}
	for i, fv := range fn.FreeVars {
		fr.regs[fv] = bind[i]
	}
	n := len(s.pc)
	outs := e.runBlock(s, fr, fn.Blocks[0], 0, nil)
	var rets, other []Outcome
	for _, o := range outs {
		if o.kind == ORet {
			o.fr = nil
			rets = append(rets, o)
		} else {
			other = append(other, o)
		}
	}
	return append(e.mergeAll(rets, n, nil), other...)
}

func isBackEdge(from, to *ssa.BasicBlock) bool { return from != nil && to.Dominates(from) }

// enter evaluates the phis of b when arriving from prev. Returns false when the
// unwinding limit is exceeded.
func (e *Exec) enter(s *State, fr *Frame, b, prev *ssa.BasicBlock) bool {
	if len(b.Preds) > 1 {
		if isBackEdge(prev, b) {
			if fr.iters == nil {
				fr.iters = map[*ssa.BasicBlock]int{}
			}
			fr.iters[b]++
			if fr.iters[b] > e.unwind {
				return false
			}
		} else if fr.iters != nil {
			delete(fr.iters, b)
		}
	}
	idx := -1
	for i, p := range b.Preds {
		if p == prev {
			idx = i
		}
	}
	var vals []Value
	var phis []*ssa.Phi
	for _, in := range b.Instrs {
		ph, ok := in.(*ssa.Phi)
		if !ok {
			break
		}
		phis = append(phis, ph)
		vals = append(vals, e.val(fr, s, ph.Edges[idx]))
	}
	for i, ph := range phis {
		fr.regs[ph] = vals[i]
	}
	if vn, ok := e.havoc[fr.fn.String()]; ok && !fr.havocked && isLoopHeader(b) && !isBackEdge(prev, b) {
		// loop cut: the named loop-carried scalar of the first loop of this call starts from a fresh value
		for i, ph := range phis {
			if ph.Comment != vn {
				continue
			}
			t, isT := vals[i].(*Term)
			if !isT || t.w == 0 {
				continue
			}
			if !havocSideConditions(b, ph) {
				e.havocUsed[fr.fn.String()] = false
				break
			}
			v := Var(t.w, fmt.Sprintf("havoc.%s.%s", fr.fn.Name(), vn))
			if !e.havocSeen[v.name] {
				e.havocSeen[v.name] = true
				e.addInput(v)
			}
			fr.regs[ph] = v
			fr.havocked = true
			if _, set := e.havocUsed[fr.fn.String()]; !set {
				e.havocUsed[fr.fn.String()] = true
			}
		}
	}
	return true
}

func isLoopHeader(b *ssa.BasicBlock) bool {
	for _, p := range b.Preds {
		if b.Dominates(p) {
			return true
		}
	}
	return false
}

func firstNonPhi(b *ssa.BasicBlock) int {
	for i, in := range b.Instrs {
		if _, ok := in.(*ssa.Phi); !ok {
			return i
		}
	}
	return len(b.Instrs)
}

func (e *Exec) goTo(s *State, fr *Frame, from, to, stop *ssa.BasicBlock) []Outcome {
	if !e.enter(s, fr, to, from) {
		e.obls = append(e.obls, &Obl{Kind: "unwind", Harness: e.harness, Msg: fmt.Sprintf("loop in %s exceeds %d iterations", fr.fn.String(), e.unwind), Site: e.siteOf(fr.fn, to.Instrs[0]), pc: s.pc, cond: True()})
		return []Outcome{{kind: OStop, st: s, msg: "unwind"}}
	}
	if to == stop {
		return []Outcome{{kind: OAt, st: s, fr: fr}}
	}
	return e.runBlock(s, fr, to, firstNonPhi(to), stop)
}

func (e *Exec) siteOf(fn *ssa.Function, in ssa.Instruction) string {
	pos := in.Pos()
	if !pos.IsValid() {
		// look for a neighbouring instruction with a position
		if b := in.Block(); b != nil {
			for _, x := range b.Instrs {
				if x.Pos().IsValid() {
					pos = x.Pos()
					if x == in {
						break
					}
				}
			}
		}
	}
	line := ""
	if pos.IsValid() {
		p := e.prog.Fset.Position(pos)
		line = srcLine(p.Filename, p.Line)
	}
	return fn.String() + "|" + line
}

var srcCache = map[string][]string{}

func srcLine(file string, line int) string {
	ls, ok := srcCache[file]
	if !ok {
		data, err := readSource(file)
		if err == nil {
			ls = strings.Split(string(data), "\n")
		}
		srcCache[file] = ls
	}
	if line-1 < len(ls) && line >= 1 {
		return strings.Join(strings.Fields(ls[line-1]), " ")
	}
	return ""
}

var overlaySources = map[string][]byte{}

func readSource(file string) ([]byte, error) {
	if b, ok := overlaySources[file]; ok {
		return b, nil
	}
	return os.ReadFile(file)
}

// panicState records a potential run-time panic: pc ∧ bad must be unsatisfiable.
func (e *Exec) panicState(s *State, fr *Frame, in ssa.Instruction, bad *Term, kind string) {
	if bad.isFalse() {
		return
	}
	site := e.siteOf(fr.fn, in)
	o := &Obl{Kind: "panic", Harness: e.harness, Msg: kind + " in " + fr.fn.String(), Site: site, pc: s.pc, cond: bad}
	if s.kpID != "" && s.kpCond != nil {
		o.KnownID, o.kcond = s.kpID, s.kpCond
	}
	e.obls = append(e.obls, o)
}

type budgetExceeded struct{}

func (e *Exec) runBlock(s *State, fr *Frame, b *ssa.BasicBlock, start int, stop *ssa.BasicBlock) []Outcome {
	var side []Outcome
	for i := start; i < len(b.Instrs); i++ {
		e.instrs++
		if e.instrs&1023 == 0 && ((!e.deadline.IsZero() && time.Now().After(e.deadline)) || atomic.LoadInt32(&e.abort) != 0) {
			panic(budgetExceeded{})
		}
		if e.split != nil {
			return append(side, Outcome{kind: OStop, st: s, msg: "split"})
		}
		var multi []Outcome
		isMulti := false
		switch in := b.Instrs[i].(type) {
		case *ssa.If:
			c := term(e.val(fr, s, in.Cond))
			if c.isTrue() {
				return append(side, e.goTo(s, fr, b, b.Succs[0], stop)...)
			}
			if c.isFalse() {
				return append(side, e.goTo(s, fr, b, b.Succs[1], stop)...)
			}
			if debugOn && fr.fn.Name() == "parseTables" {
				fmt.Fprintf(os.Stderr, "IF in %s: %s facts=%d decide=%d\n", fr.fn.Name(), show(c, 4), len(s.facts), s.decide(c, 0))
			}
			if d := s.decide(c, 0); d >= 0 && os.Getenv("GOSYM_NOFACTS") == "" {
				// decided by facts already on the path condition
				return append(side, e.goTo(s, fr, b, b.Succs[1-d], stop)...)
			}
			J := e.ipdoms(fr.fn)[b]
			n := len(s.pc)
			var outs []Outcome
			conds := []*Term{c, Not(c)}
			feas := []bool{true, true}
			if exits := e.loopExitInfo(b); exits != nil {
				// loop-exit test: unrolling stops when staying in the loop is infeasible. The solver is
				// asked about the continuing arm on the first visit and then on every 4th one.
				if fr.visits == nil {
					fr.visits = map[*ssa.BasicBlock]int{}
				}
				v := fr.visits[b]
				fr.visits[b] = v + 1
				if v%4 == 0 {
					for k := range conds {
						if !exits[k] && !e.feasibleP(s, conds[k], "feas-loop:"+fr.fn.Name()) {
							feas[k] = false
						}
					}
					if !feas[0] && !feas[1] {
						feas[1] = true
					}
				}
			}
			if feas[0] != feas[1] {
				// only one arm is possible: no fork
				k := 0
				if !feas[0] {
					k = 1
				}
				s.assume(conds[k])
				return append(side, e.goTo(s, fr, b, b.Succs[k], stop)...)
			}
			for k, cond := range conds {
				e.forks++
				s2 := s.fork(e)
				s2.assume(cond)
				outs = append(outs, e.goTo(s2, fr.clone(), b, b.Succs[k], J)...)
			}
			var at []Outcome
			for _, o := range outs {
				if o.kind == OAt {
					at = append(at, o)
				} else {
					side = append(side, o)
				}
			}
			var live map[ssa.Value]bool
			if J != nil {
				live = e.live(J)
			}
			for _, m := range e.mergeAll(at, n, live) {
				if J == stop {
					side = append(side, m)
				} else {
					side = append(side, e.runBlock(m.st, m.fr, J, firstNonPhi(J), stop)...)
				}
			}
			return side
		case *ssa.Jump:
			return append(side, e.goTo(s, fr, b, b.Succs[0], stop)...)
		case *ssa.Return:
			var vals []Value
			for _, r := range in.Results {
				vals = append(vals, e.val(fr, s, r))
			}
			return append(side, Outcome{kind: ORet, st: s, vals: vals})
		case *ssa.Panic:
			e.panicState(s, fr, in, True(), "explicit panic")
			return append(side, Outcome{kind: OPanic, st: s, msg: "explicit panic in " + fr.fn.String()})
		case *ssa.RunDefers:
			for k := len(fr.defers) - 1; k >= 0; k-- {
				d := fr.defers[k]
				outs := e.callValue(s, fr, d.fn, d.args, nil)
				var rets []Outcome
				for _, o := range outs {
					if o.kind == ORet {
						rets = append(rets, o)
					} else {
						side = append(side, o)
					}
				}
				if len(rets) != 1 {
					panic(engineErr("deferred call with %d normal outcomes", len(rets)))
				}
				s = rets[0].st
			}
			fr.defers = nil
			continue
		case *ssa.Call:
			multi, isMulti = e.doCall(s, fr, in), true
		default:
			m, ok := e.stepMulti(s, fr, b.Instrs[i])
			if ok {
				multi, isMulti = m, true
			} else {
				alive := e.step(s, fr, b.Instrs[i])
				if !alive {
					return append(side, Outcome{kind: OPanic, st: s, msg: "unconditional panic"})
				}
			}
		}
		if isMulti {
			val, hasVal := b.Instrs[i].(ssa.Value)
			var rets []Outcome
			for _, o := range multi {
				if o.kind == ORet {
					rets = append(rets, o)
				} else {
					side = append(side, o)
				}
			}
			if len(rets) == 0 {
				return side
			}
			for k, o := range rets {
				f2 := fr
				if k < len(rets)-1 {
					f2 = fr.clone()
				}
				if hasVal {
					switch len(o.vals) {
					case 0:
					case 1:
						f2.regs[val] = o.vals[0]
					default:
						f2.regs[val] = TupleV(o.vals)
					}
				}
				if k < len(rets)-1 {
					side = append(side, e.runBlock(o.st, f2, b, i+1, stop)...)
				} else {
					s = o.st
				}
			}
		}
	}
	return side
}

func ret(s *State, vals ...Value) []Outcome { return []Outcome{{kind: ORet, st: s, vals: vals}} }

// stepMulti handles instructions that may fork the state.
func (e *Exec) stepMulti(s *State, fr *Frame, instr ssa.Instruction) ([]Outcome, bool) {
	switch in := instr.(type) {
	case *ssa.Lookup:
		return e.lookup(s, fr, in), true
	case *ssa.MapUpdate:
		return e.mapUpdate(s, fr, in), true
	case *ssa.MakeSlice:
		n := e.ext64(fr, s, in.Len)
		c := e.ext64(fr, s, in.Cap)
		return e.makeSlice(s, fr, in, in.Type().Underlying().(*types.Slice).Elem(), n, c), true
	case *ssa.Convert:
		xv := e.val(fr, s, in.X)
		if sl, ok := xv.(SliceV); ok && !sl.len_.isConst() {
			// []byte -> string with symbolic length: enumerate the lengths
			var outs []Outcome
			for _, cv := range e.concretize(s, sl.len_, 600, "string conversion length") {
				cells := e.cellsOf(cv.st, sl)
				b := make([]*Term, cv.v)
				for i := range b {
					b[i] = term(e.iteChain(cells, Bin("bvadd", sl.off, C(64, uint64(i)))))
				}
				outs = append(outs, Outcome{kind: ORet, st: cv.st, vals: []Value{StrV{b: b}}})
			}
			return outs, true
		}
	}
	return nil, false
}

func (e *Exec) makeSlice(s *State, fr *Frame, in ssa.Instruction, et types.Type, n, c *Term) []Outcome {
	top := uint64(1) << 62
	bad := Or(Cmp("ult", c, n), Or(Cmp("ule", C(64, top), n), Cmp("ule", C(64, top), c)))
	e.panicState(s, fr, in, bad, "makeslice: len out of range")
	if bad.isTrue() {
		return []Outcome{{kind: OPanic, st: s, msg: "makeslice"}}
	}
	s.assume(Not(bad))
	z := e.zero(et)
	if c.isConst() {
		if c.val > uint64(e.maxAlloc) {
			e.obls = append(e.obls, &Obl{Kind: "alloc", Harness: e.harness, Msg: fmt.Sprintf("allocation of %d elements in %s", c.val, fr.fn.String()), Site: e.siteOf(fr.fn, in), pc: s.pc, cond: True()})
			return []Outcome{{kind: OStop, st: s, msg: "alloc"}}
		}
		cells := make([]Value, c.val)
		for i := range cells {
			cells[i] = z
		}
		id := e.alloc(s, ArrV{cells})
		return ret(s, SliceV{id, nil, C(64, 0), n, c, isScalarType(et)})
	}
	// symbolic capacity: allocate the interval maximum if it is small, else enumerate
	if c.hi <= 4096 && isScalarType(et) {
		cells := make([]Value, c.hi)
		for i := range cells {
			cells[i] = z
		}
		id := e.alloc(s, ArrV{cells})
		return ret(s, SliceV{id, nil, C(64, 0), n, c, true})
	}
	var outs []Outcome
	for _, cv := range e.concretize(s, c, 1100, "make size") {
		if cv.v > uint64(e.maxAlloc) {
			e.obls = append(e.obls, &Obl{Kind: "alloc", Harness: e.harness, Msg: fmt.Sprintf("allocation of %d elements in %s", cv.v, fr.fn.String()), Site: e.siteOf(fr.fn, in), pc: cv.st.pc, cond: True()})
			continue
		}
		cells := make([]Value, cv.v)
		for i := range cells {
			cells[i] = z
		}
		id := e.alloc(cv.st, ArrV{cells})
		nn := n
		if n == c {
			nn = C(64, cv.v)
		}
		outs = append(outs, Outcome{kind: ORet, st: cv.st, vals: []Value{SliceV{id, nil, C(64, 0), nn, C(64, cv.v), isScalarType(et)}}})
	}
	return outs
}

func (e *Exec) lookup(s *State, fr *Frame, in *ssa.Lookup) []Outcome {
	x := e.val(fr, s, in.X)
	k := e.val(fr, s, in.Index)
	mt, isMap := in.X.Type().Underlying().(*types.Map)
	if !isMap {
		// string index
		str := x.(StrV)
		idx := e.ext64(fr, s, in.Index)
		ok := Cmp("ult", idx, strLen(str))
		e.panicState(s, fr, in, Not(ok), "index out of range")
		if ok.isFalse() {
			return []Outcome{{kind: OPanic, st: s}}
		}
		s.assume(ok)
		return ret(s, strAt(str, idx))
	}
	zero := e.zero(mt.Elem())
	mkOut := func(st *State, v Value, ok bool) Outcome {
		if in.CommaOk {
			return Outcome{kind: ORet, st: st, vals: []Value{v, B(ok)}}
		}
		return Outcome{kind: ORet, st: st, vals: []Value{v}}
	}
	if _, isNil := x.(NilV); isNil {
		return []Outcome{mkOut(s, zero, false)}
	}
	m := s.get(x.(MapRef).obj).(MapV)
	alts := e.keyMatch(s, m, k)
	var outs []Outcome
	for _, a := range alts {
		if a.idx >= 0 {
			outs = append(outs, mkOut(a.st, m.vals[a.idx], true))
		} else {
			outs = append(outs, mkOut(a.st, zero, false))
		}
	}
	return outs
}

type keyAlt struct {
	idx int
	st  *State
}

func keyEq(a, b Value) *Term {
	switch x := a.(type) {
	case *Term:
		return Cmp("eq", x, b.(*Term))
	case StrV:
		return strEq(x, b.(StrV))
	case ErrV:
		return Cmp("eq", x.code, b.(ErrV).code)
	}
	return B(sameValue(a, b))
}

// keyMatch decides which entry of m the key k denotes, forking when symbolic.
func (e *Exec) keyMatch(s *State, m MapV, k Value) []keyAlt {
	var conds []*Term
	none := True()
	for i := range m.keys {
		c := keyEq(k, m.keys[i])
		conds = append(conds, c)
		if c.isTrue() {
			return []keyAlt{{i, s}}
		}
		none = And(none, Not(c))
	}
	var alts []keyAlt
	cand := 0
	for _, c := range conds {
		if !c.isFalse() {
			cand++
		}
	}
	prune := cand <= 12
	for i, c := range conds {
		if c.isFalse() || (prune && !e.feasibleP(s, c, "feas-key")) {
			continue
		}
		e.forks++
		s2 := s.fork(e)
		s2.assume(c)
		alts = append(alts, keyAlt{i, s2})
	}
	if !none.isFalse() && (len(alts) == 0 || !prune || e.feasible(s, none)) {
		s.assume(none)
		alts = append(alts, keyAlt{-1, s})
	}
	return alts
}

func (e *Exec) mapUpdate(s *State, fr *Frame, in *ssa.MapUpdate) []Outcome {
	mv := e.val(fr, s, in.Map)
	mr, ok := mv.(MapRef)
	if !ok {
		e.panicState(s, fr, in, True(), "assignment to entry in nil map")
		return []Outcome{{kind: OPanic, st: s}}
	}
	k, v := e.val(fr, s, in.Key), e.val(fr, s, in.Value)
	m := s.get(mr.obj).(MapV)
	var outs []Outcome
	for _, a := range e.keyMatch(s, m, k) {
		cur := a.st.get(mr.obj).(MapV)
		if a.idx >= 0 {
			nv := append([]Value(nil), cur.vals...)
			nv[a.idx] = v
			a.st.set(mr.obj, MapV{cur.keys, nv})
		} else {
			a.st.set(mr.obj, MapV{append(append([]Value(nil), cur.keys...), k), append(append([]Value(nil), cur.vals...), v)})
		}
		outs = append(outs, Outcome{kind: ORet, st: a.st})
	}
	return outs
}

func strEq(a, b StrV) *Term {
	if a.alt != nil {
		return Ite(a.alt.c, strEq(a.alt.x, b), strEq(a.alt.y, b))
	}
	if b.alt != nil {
		return Ite(b.alt.c, strEq(a, b.alt.x), strEq(a, b.alt.y))
	}
	if len(a.b) != len(b.b) {
		return False()
	}
	r := True()
	for i := range a.b {
		r = And(r, Cmp("eq", a.b[i], b.b[i]))
	}
	return r
}

func (e *Exec) sliceLen(v Value) *Term {
	switch x := v.(type) {
	case SliceV:
		return x.len_
	case NilV:
		return C(64, 0)
	case StrV:
		return strLen(x)
	}
	panic(engineErr("len of %T", v))
}

func (e *Exec) callValue(s *State, fr *Frame, f Value, args []Value, in *ssa.Call) []Outcome {
	switch fv := f.(type) {
	case *ssa.Builtin:
		return e.builtin(s, fr, fv.Name(), args, in)
	case ClosureV:
		return e.call(s, fv.fn, args, fv.bind)
	case FuncV:
		return e.callFn(s, fr, fv.fn, args, in)
	case NilV:
		return []Outcome{{kind: OPanic, st: s, msg: "call of nil function"}}
	}
	panic(engineErr("dynamic call of %T", f))
}

func (e *Exec) doCall(s *State, fr *Frame, in *ssa.Call) []Outcome {
	cc := in.Common()
	args := make([]Value, 0, len(cc.Args)+1)
	for _, a := range cc.Args {
		args = append(args, e.val(fr, s, a))
	}
	if cc.IsInvoke() {
		recv := e.val(fr, s, cc.Value)
		switch iv := recv.(type) {
		case IfaceV:
			fn := e.prog.LookupMethod(iv.typ, cc.Method.Pkg(), cc.Method.Name())
			if fn == nil {
				panic(engineErr("no method %s on %s", cc.Method.Name(), iv.typ.String()))
			}
			return e.callFn(s, fr, fn, append([]Value{iv.val}, args...), in)
		case ErrV:
			if cc.Method.Name() == "Error" {
				e.panicState(s, fr, in, Cmp("eq", iv.code, C(32, 0)), "nil error dereference")
				return ret(s, mkStr("<error>"))
			}
		case NilV:
			e.panicState(s, fr, in, True(), "invoke on nil interface")
			return []Outcome{{kind: OPanic, st: s, msg: "invoke on nil interface"}}
		}
		panic(engineErr("invoke %s on %T in %s", cc.Method.Name(), recv, fr.fn.String()))
	}
	return e.callValue(s, fr, e.val(fr, s, cc.Value), args, in)
}

// step executes a non-forking instruction. Returns false if the path cannot continue.
func (e *Exec) step(s *State, fr *Frame, instr ssa.Instruction) bool {
	switch in := instr.(type) {
	case *ssa.Alloc:
		et := in.Type().(*types.Pointer).Elem()
		fr.regs[in] = Ptr{obj: e.alloc(s, e.zero(et))}
	case *ssa.MakeMap:
		fr.regs[in] = MapRef{e.alloc(s, MapV{})}
	case *ssa.MakeClosure:
		var b []Value
		for _, x := range in.Bindings {
			b = append(b, e.val(fr, s, x))
		}
		fr.regs[in] = ClosureV{in.Fn.(*ssa.Function), b}
	case *ssa.MakeInterface:
		v := e.val(fr, s, in.X)
		if isErrorType(in.Type()) {
			switch x := v.(type) {
			case ErrV:
				fr.regs[in] = x
			case Ptr:
				fr.regs[in] = ErrV{e.errCode(fmt.Sprintf("obj%d", x.obj))}
			default:
				panic(engineErr("MakeInterface error from %T", v))
			}
		} else if ev, ok := v.(ErrV); ok {
			fr.regs[in] = ev
		} else {
			fr.regs[in] = IfaceV{in.X.Type(), v}
		}
	case *ssa.ChangeInterface:
		fr.regs[in] = e.val(fr, s, in.X)
	case *ssa.TypeAssert:
		v := e.val(fr, s, in.X)
		ok := false
		var res Value = e.zero(in.AssertedType)
		switch iv := v.(type) {
		case IfaceV:
			if ti, toIface := in.AssertedType.Underlying().(*types.Interface); toIface {
				ok = types.Implements(iv.typ, ti)
				res = iv
			} else if types.Identical(iv.typ, in.AssertedType) {
				ok, res = true, iv.val
			}
		case ErrV:
			if isErrorType(in.AssertedType) {
				if !iv.code.isConst() {
					panic(engineErr("type assertion on symbolic error"))
				}
				ok, res = iv.code.val != 0, iv
			}
		}
		if in.CommaOk {
			fr.regs[in] = TupleV{res, B(ok)}
		} else if !ok {
			e.panicState(s, fr, in, True(), "type assertion failed")
			return false
		} else {
			fr.regs[in] = res
		}
	case *ssa.UnOp:
		x := e.val(fr, s, in.X)
		switch in.Op {
		case token.MUL:
			p, ok := x.(Ptr)
			if !ok {
				e.panicState(s, fr, in, True(), "nil pointer dereference")
				return false
			}
			fr.regs[in] = e.load(s, p)
		case token.NOT:
			fr.regs[in] = Not(term(x))
		case token.SUB:
			fr.regs[in] = BvNeg(term(x))
		case token.XOR:
			fr.regs[in] = BvNot(term(x))
		default:
			panic(engineErr("unop %s", in.String()))
		}
	case *ssa.BinOp:
		r, alive := e.binop(s, fr, in, e.val(fr, s, in.X), e.val(fr, s, in.Y))
		if !alive {
			return false
		}
		fr.regs[in] = r
	case *ssa.Convert:
		return e.convert(s, fr, in)
	case *ssa.ChangeType:
		fr.regs[in] = e.val(fr, s, in.X)
	case *ssa.FieldAddr:
		p, ok := e.val(fr, s, in.X).(Ptr)
		if !ok {
			e.panicState(s, fr, in, True(), "nil pointer dereference")
			return false
		}
		fr.regs[in] = Ptr{p.obj, ext(p.path, PathEl{field: in.Field})}
	case *ssa.Field:
		fr.regs[in] = e.val(fr, s, in.X).(StructV).fields[in.Field]
	case *ssa.Index:
		x := e.val(fr, s, in.X)
		idx := e.ext64(fr, s, in.Index)
		switch a := x.(type) {
		case ArrV:
			ok := Cmp("ult", idx, C(64, uint64(len(a.cells))))
			e.panicState(s, fr, in, Not(ok), "index out of range")
			if ok.isFalse() {
				return false
			}
			s.assume(ok)
			fr.regs[in] = e.iteChain(a.cells, idx)
		case StrV:
			ok := Cmp("ult", idx, strLen(a))
			e.panicState(s, fr, in, Not(ok), "index out of range")
			if ok.isFalse() {
				return false
			}
			s.assume(ok)
			fr.regs[in] = strAt(a, idx)
		default:
			panic(engineErr("Index on %T", x))
		}
	case *ssa.IndexAddr:
		x := e.val(fr, s, in.X)
		idx := e.ext64(fr, s, in.Index)
		switch b := x.(type) {
		case Ptr:
			n := len(e.getPath(s.get(b.obj), b.path).(ArrV).cells)
			ok := Cmp("ult", idx, C(64, uint64(n)))
			e.panicState(s, fr, in, Not(ok), "index out of range")
			if ok.isFalse() {
				return false
			}
			s.assume(ok)
			fr.regs[in] = Ptr{b.obj, ext(b.path, PathEl{idx: idx})}
		case SliceV:
			ok := Cmp("ult", idx, b.len_)
			e.panicState(s, fr, in, Not(ok), "index out of range")
			// invariant of every slice: off+len <= size of the backing store. A constant position
			// beyond the store can only occur on an infeasible (lazily explored) path.
			pos := Bin("bvadd", b.off, idx)
			if n := len(e.cellsOf(s, b)); pos.isConst() && pos.val >= uint64(n) {
				ok = False()
			}
			if ok.isFalse() {
				return false
			}
			s.assume(ok)
			fr.regs[in] = Ptr{b.obj, ext(b.path, PathEl{idx: pos})}
		case NilV:
			e.panicState(s, fr, in, True(), "index of nil slice")
			return false
		default:
			panic(engineErr("IndexAddr on %T", x))
		}
	case *ssa.Slice:
		x := e.val(fr, s, in.X)
		var off, ln, cp *Term
		var obj int
		var path []PathEl
		scal := true
		isStr := false
		var str StrV
		switch b := x.(type) {
		case Ptr:
			obj, path = b.obj, b.path
			arr := e.getPath(s.get(b.obj), b.path).(ArrV)
			n := C(64, uint64(len(arr.cells)))
			off, ln, cp = C(64, 0), n, n
			if at, ok := in.X.Type().Underlying().(*types.Pointer); ok {
				if a, ok := at.Elem().Underlying().(*types.Array); ok {
					scal = isScalarType(a.Elem())
				}
			}
		case SliceV:
			obj, path, off, ln, cp, scal = b.obj, b.path, b.off, b.len_, b.cap_, b.scal
		case NilV:
			off, ln, cp = C(64, 0), C(64, 0), C(64, 0)
		case StrV:
			b = b.plain("slicing")
			isStr, str = true, b
			n := C(64, uint64(len(b.b)))
			off, ln, cp = C(64, 0), n, n
		default:
			panic(engineErr("slice of %T", x))
		}
		lo, hi, mx := C(64, 0), ln, cp
		if in.Low != nil {
			lo = e.ext64(fr, s, in.Low)
		}
		if in.High != nil {
			hi = e.ext64(fr, s, in.High)
		}
		if in.Max != nil {
			mx = e.ext64(fr, s, in.Max)
		}
		var ok *Term
		if isStr {
			ok = And(Cmp("ule", lo, hi), Cmp("ule", hi, ln))
		} else {
			ok = And(Cmp("ule", lo, hi), And(Cmp("ule", hi, mx), Cmp("ule", mx, cp)))
		}
		e.panicState(s, fr, in, Not(ok), "slice bounds out of range")
		if ok.isFalse() {
			return false
		}
		s.assume(ok)
		if isStr {
			if !lo.isConst() || !hi.isConst() {
				panic(engineErr("symbolic string slice bounds"))
			}
			fr.regs[in] = StrV{b: str.b[lo.val:hi.val]}
			return true
		}
		if _, isNil := x.(NilV); isNil {
			fr.regs[in] = NilV{}
			return true
		}
		fr.regs[in] = SliceV{obj, path, Bin("bvadd", off, lo), Bin("bvsub", hi, lo), Bin("bvsub", mx, lo), scal}
	case *ssa.Store:
		p, ok := e.val(fr, s, in.Addr).(Ptr)
		if !ok {
			e.panicState(s, fr, in, True(), "nil pointer dereference")
			return false
		}
		e.store(s, p, e.val(fr, s, in.Val))
	case *ssa.Extract:
		fr.regs[in] = e.val(fr, s, in.Tuple).(TupleV)[in.Index]
	case *ssa.Range:
		x := e.val(fr, s, in.X)
		switch m := x.(type) {
		case MapRef:
			mv := s.get(m.obj).(MapV)
			fr.regs[in] = IterRef{e.alloc(s, IterV{keys: mv.keys, vals: mv.vals})}
		case NilV:
			fr.regs[in] = IterRef{e.alloc(s, IterV{})}
		case StrV:
			m = m.plain("range")
			var ks, vs []Value
			for i, b := range m.b {
				if !b.isConst() || b.val >= 0x80 {
					panic(engineErr("range over non-ASCII or symbolic string"))
				}
				ks = append(ks, C(64, uint64(i)))
				vs = append(vs, C(32, b.val))
			}
			fr.regs[in] = IterRef{e.alloc(s, IterV{keys: ks, vals: vs})}
		default:
			panic(engineErr("range over %T", x))
		}
	case *ssa.Next:
		it := e.val(fr, s, in.Iter).(IterRef)
		iv := s.get(it.obj).(IterV)
		tt := in.Type().(*types.Tuple)
		if iv.pos < len(iv.keys) {
			fr.regs[in] = TupleV{True(), iv.keys[iv.pos], iv.vals[iv.pos]}
			s.set(it.obj, IterV{iv.keys, iv.vals, iv.pos + 1})
		} else {
			var zk, zv Value = NilV{}, NilV{}
			if !isInvalid(tt.At(1).Type()) {
				zk = e.zero(tt.At(1).Type())
			}
			if !isInvalid(tt.At(2).Type()) {
				zv = e.zero(tt.At(2).Type())
			}
			fr.regs[in] = TupleV{False(), zk, zv}
		}
	case *ssa.Defer:
		cc := in.Common()
		if cc.IsInvoke() {
			panic(engineErr("defer of interface method"))
		}
		var args []Value
		for _, a := range cc.Args {
			args = append(args, e.val(fr, s, a))
		}
		fr.defers = append(append([]deferred(nil), fr.defers...), deferred{e.val(fr, s, cc.Value), args})
	case *ssa.DebugRef:
	default:
		panic(engineErr("unsupported instruction %T %s in %s", instr, instr, fr.fn.String()))
	}
	return true
}

func isInvalid(t types.Type) bool {
	b, ok := t.(*types.Basic)
	return ok && b.Kind() == types.Invalid
}

func isFloatType(t types.Type) bool {
	b, ok := t.Underlying().(*types.Basic)
	return ok && b.Info()&types.IsFloat != 0
}

func (e *Exec) convert(s *State, fr *Frame, in *ssa.Convert) bool {
	xv := e.val(fr, s, in.X)
	tw := width(in.Type())
	// floating point: concrete operands only
	if isFloatType(in.Type()) {
		switch x := xv.(type) {
		case FloatV:
			if in.Type().Underlying().(*types.Basic).Kind() == types.Float32 {
				fr.regs[in] = FloatV{float64(float32(x.f))}
			} else {
				fr.regs[in] = x
			}
			return true
		case *Term:
			if !x.isConst() {
				panic(engineErr("conversion of a symbolic integer to floating point (unsupported) in %s", fr.fn.String()))
			}
			if signed(in.X.Type()) {
				fr.regs[in] = FloatV{float64(sx(x.val, x.w))}
			} else {
				fr.regs[in] = FloatV{float64(x.val)}
			}
			return true
		}
	}
	if fv, ok := xv.(FloatV); ok && tw > 0 {
		if signed(in.Type()) {
			fr.regs[in] = C(tw, uint64(int64(fv.f)))
		} else {
			fr.regs[in] = C(tw, uint64(fv.f))
		}
		return true
	}
	x, isT := xv.(*Term)
	if tw < 0 || !isT {
		dst := in.Type().Underlying()
		switch y := xv.(type) {
		case StrV:
			if _, ok := dst.(*types.Slice); ok {
				y = y.plain("conversion to []byte")
				cells := make([]Value, len(y.b))
				for i, t := range y.b {
					cells[i] = t
				}
				id := e.alloc(s, ArrV{cells})
				n := C(64, uint64(len(cells)))
				fr.regs[in] = SliceV{id, nil, C(64, 0), n, n, true}
				return true
			}
			fr.regs[in] = y
			return true
		case SliceV:
			cells := e.cellsOf(s, y)
			b := make([]*Term, y.len_.val)
			for i := range b {
				b[i] = term(e.iteChain(cells, Bin("bvadd", y.off, C(64, uint64(i)))))
			}
			fr.regs[in] = StrV{b: b}
			return true
		case NilV:
			if _, ok := dst.(*types.Basic); ok {
				fr.regs[in] = StrV{}
			} else {
				fr.regs[in] = NilV{}
			}
			return true
		case *Term:
			if b, ok := dst.(*types.Basic); ok && b.Info()&types.IsString != 0 {
				// string(rune) on concrete small values
				if y.isConst() && y.val < 0x80 {
					fr.regs[in] = mkStr(string(rune(y.val)))
					return true
				}
			}
		case Ptr:
			fr.regs[in] = y
			return true
		}
		panic(engineErr("unsupported conversion %s in %s", in.String(), fr.fn.String()))
	}
	if tw == 0 {
		fr.regs[in] = x
		return true
	}
	if tw <= x.w {
		fr.regs[in] = Extract(x, tw-1, 0)
	} else if signed(in.X.Type()) {
		fr.regs[in] = SExt(x, tw)
	} else {
		fr.regs[in] = ZExt(x, tw)
	}
	return true
}

func (e *Exec) binop(s *State, fr *Frame, in *ssa.BinOp, x, y Value) (Value, bool) {
	switch in.Op {
	case token.EQL, token.NEQ:
		r := e.valueEq(x, y)
		if in.Op == token.NEQ {
			return Not(r), true
		}
		return r, true
	}
	if fa, ok := x.(FloatV); ok {
		fb := y.(FloatV)
		switch in.Op {
		case token.ADD:
			return FloatV{fa.f + fb.f}, true
		case token.SUB:
			return FloatV{fa.f - fb.f}, true
		case token.MUL:
			return FloatV{fa.f * fb.f}, true
		case token.QUO:
			return FloatV{fa.f / fb.f}, true
		case token.LSS:
			return B(fa.f < fb.f), true
		case token.LEQ:
			return B(fa.f <= fb.f), true
		case token.GTR:
			return B(fa.f > fb.f), true
		case token.GEQ:
			return B(fa.f >= fb.f), true
		}
		panic(engineErr("floating-point operation %s", in.Op))
	}
	if sa, ok := x.(StrV); ok {
		sb := y.(StrV)
		switch in.Op {
		case token.ADD:
			return strConcat(sa, sb), true
		case token.LSS, token.GTR, token.LEQ, token.GEQ:
			ca, ok1 := sa.concrete()
			cb, ok2 := sb.concrete()
			if !ok1 || !ok2 {
				panic(engineErr("ordering of symbolic strings"))
			}
			switch in.Op {
			case token.LSS:
				return B(ca < cb), true
			case token.GTR:
				return B(ca > cb), true
			case token.LEQ:
				return B(ca <= cb), true
			default:
				return B(ca >= cb), true
			}
		}
	}
	a, b := term(x), term(y)
	sg := signed(in.X.Type())
	switch in.Op {
	case token.ADD:
		return Bin("bvadd", a, b), true
	case token.SUB:
		return Bin("bvsub", a, b), true
	case token.MUL:
		return Bin("bvmul", a, b), true
	case token.AND:
		if a.w == 0 {
			return And(a, b), true
		}
		return Bin("bvand", a, b), true
	case token.OR:
		if a.w == 0 {
			return Or(a, b), true
		}
		return Bin("bvor", a, b), true
	case token.XOR:
		if a.w == 0 {
			return Not(Cmp("eq", a, b)), true
		}
		return Bin("bvxor", a, b), true
	case token.AND_NOT:
		return Bin("bvand", a, BvNot(b)), true
	case token.SHL, token.SHR:
		cnt := b
		if signed(in.Y.Type()) {
			neg := Cmp("slt", cnt, C(cnt.w, 0))
			e.panicState(s, fr, in, neg, "negative shift amount")
			if neg.isTrue() {
				return nil, false
			}
			s.assume(Not(neg))
		}
		if cnt.w != a.w {
			if cnt.isConst() {
				v := cnt.val
				if v > uint64(a.w) {
					v = uint64(a.w)
				}
				cnt = C(a.w, v)
			} else if cnt.w < a.w {
				cnt = ZExt(cnt, a.w)
			} else {
				big := Cmp("ule", C(cnt.w, uint64(a.w)), cnt)
				cnt = Ite(big, C(a.w, uint64(a.w)), Extract(cnt, a.w-1, 0))
			}
		}
		if in.Op == token.SHL {
			return Bin("bvshl", a, cnt), true
		}
		if sg {
			return Bin("bvashr", a, cnt), true
		}
		return Bin("bvlshr", a, cnt), true
	case token.LSS, token.LEQ, token.GTR, token.GEQ:
		op := ""
		switch in.Op {
		case token.LSS, token.GTR:
			op = "lt"
		default:
			op = "le"
		}
		if sg {
			op = "s" + op
		} else {
			op = "u" + op
		}
		if in.Op == token.GTR || in.Op == token.GEQ {
			a, b = b, a
		}
		return Cmp(op, a, b), true
	case token.QUO, token.REM:
		zero := Cmp("eq", b, C(b.w, 0))
		e.panicState(s, fr, in, zero, "integer divide by zero")
		if zero.isTrue() {
			return nil, false
		}
		s.assume(Not(zero))
		op := "bvudiv"
		if in.Op == token.REM {
			op = "bvurem"
		}
		if sg {
			// non-negative operands: unsigned operation
			top := uint64(1) << uint(a.w-1)
			if a.hi < top && b.hi < top {
				return Bin(op, a, b), true
			}
			if in.Op == token.QUO {
				return Bin("bvsdiv", a, b), true
			}
			return Bin("bvsrem", a, b), true
		}
		return Bin(op, a, b), true
	}
	panic(engineErr("binop %s", in.String()))
}

func (e *Exec) valueEq(x, y Value) *Term {
	switch a := x.(type) {
	case *Term:
		return Cmp("eq", a, term(y))
	case FloatV:
		return B(a.f == y.(FloatV).f)
	case ErrV:
		switch b := y.(type) {
		case ErrV:
			return Cmp("eq", a.code, b.code)
		case NilV:
			return Cmp("eq", a.code, C(32, 0))
		}
		return False()
	case StrV:
		return strEq(a, y.(StrV))
	case NilV:
		switch b := y.(type) {
		case NilV:
			return True()
		case ErrV:
			return Cmp("eq", b.code, C(32, 0))
		default:
			return False()
		}
	case Ptr:
		b, ok := y.(Ptr)
		if !ok {
			return False()
		}
		if a.obj != b.obj || len(a.path) != len(b.path) {
			return False()
		}
		r := True()
		for i := range a.path {
			p, q := a.path[i], b.path[i]
			if p.idx != nil && q.idx != nil {
				r = And(r, Cmp("eq", p.idx, q.idx))
			} else if p != q {
				return False()
			}
		}
		return r
	case IfaceV:
		b, ok := y.(IfaceV)
		if !ok {
			return False()
		}
		if !types.Identical(a.typ, b.typ) {
			return False()
		}
		return e.valueEq(a.val, b.val)
	case MapRef, SliceV, FuncV, ClosureV:
		if _, isNil := y.(NilV); isNil {
			return False()
		}
		return B(sameValue(x, y))
	case ArrV:
		b := y.(ArrV)
		r := True()
		for i := range a.cells {
			r = And(r, e.valueEq(a.cells[i], b.cells[i]))
		}
		return r
	case StructV:
		b := y.(StructV)
		r := True()
		for i := range a.fields {
			r = And(r, e.valueEq(a.fields[i], b.fields[i]))
		}
		return r
	}
	panic(engineErr("== on %T", x))
}

func (e *Exec) addInput(v *Term) {
	e.inputs = append(e.inputs, v)
}

// havocSideConditions checks that cutting the loop at header h on phi ph is a valid
// induction: every other phi of the header is a plain counter (x = x + const), and the
// natural loop of h contains no store, map update, call (other than len/cap) or defer.
func havocSideConditions(h *ssa.BasicBlock, ph *ssa.Phi) bool {
	body := map[*ssa.BasicBlock]bool{h: true}
	for _, p := range h.Preds {
		if !h.Dominates(p) {
			continue
		}
		st := []*ssa.BasicBlock{p}
		for len(st) > 0 {
			x := st[len(st)-1]
			st = st[:len(st)-1]
			if body[x] {
				continue
			}
			body[x] = true
			st = append(st, x.Preds...)
		}
	}
	for _, in := range h.Instrs {
		other, ok := in.(*ssa.Phi)
		if !ok {
			break
		}
		if other == ph {
			continue
		}
		counter := false
		for i, ed := range other.Edges {
			if !h.Dominates(h.Preds[i]) {
				continue
			}
			if bo, ok := ed.(*ssa.BinOp); ok && bo.Op == token.ADD {
				if _, isC := bo.Y.(*ssa.Const); isC && bo.X == other {
					counter = true
				}
			}
		}
		if !counter {
			return false
		}
	}
	for b := range body {
		for _, in := range b.Instrs {
			switch x := in.(type) {
			case *ssa.Store, *ssa.MapUpdate, *ssa.Defer, *ssa.Go, *ssa.Send, *ssa.Panic:
				return false
			case *ssa.Call:
				if bi, ok := x.Common().Value.(*ssa.Builtin); !ok || (bi.Name() != "len" && bi.Name() != "cap") {
					return false
				}
			}
		}
	}
	return true
}

func sortedKeys(m map[string]bool) []string {
	var ks []string
	for k := range m {
		ks = append(ks, k)
	}
	sort.Strings(ks)
	return ks
}
