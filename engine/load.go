package main

import (
	"encoding/json"
	"fmt"
	"os"
	"path/filepath"
	"regexp"
	"sort"
	"strings"

	"golang.org/x/tools/go/packages"
	"golang.org/x/tools/go/ssa"
	"golang.org/x/tools/go/ssa/ssautil"
)

const modPath = "github.com/Comcast/gots/v2"

type HarnessFile struct {
	PkgDir  string // relative to the repo ("." for the module root)
	Real    string // /verif/harness/<dir>/<file>
	Virtual string // <repo>/<pkgdir>/zz_verif_<file>
	Funcs   []string
}

var vhRe = regexp.MustCompile(`(?m)^func (VH_(C[0-9]+)_[A-Za-z0-9_]+)\(\)`)

// scanHarness lists the harness files under verifDir/harness.
func scanHarness(verifDir, repo string) []HarnessFile {
	var out []HarnessFile
	root := filepath.Join(verifDir, "harness")
	ents, _ := os.ReadDir(root)
	for _, d := range ents {
		if !d.IsDir() || strings.HasPrefix(d.Name(), "vrt") {
			continue
		}
		pkgDir := d.Name()
		if pkgDir == "root" {
			pkgDir = "."
		}
		pkgDir = strings.ReplaceAll(pkgDir, "__", "/")
		files, _ := os.ReadDir(filepath.Join(root, d.Name()))
		for _, f := range files {
			if !strings.HasSuffix(f.Name(), ".go") {
				continue
			}
			real := filepath.Join(root, d.Name(), f.Name())
			data, _ := os.ReadFile(real)
			hf := HarnessFile{PkgDir: pkgDir, Real: real, Virtual: filepath.Join(repo, pkgDir, "zz_verif_"+f.Name())}
			for _, m := range vhRe.FindAllStringSubmatch(string(data), -1) {
				hf.Funcs = append(hf.Funcs, m[1])
			}
			out = append(out, hf)
		}
	}
	sort.Slice(out, func(i, j int) bool { return out[i].Real < out[j].Real })
	return out
}

func propOf(fn string) string {
	m := regexp.MustCompile(`^VH_(C[0-9]+)_`).FindStringSubmatch(fn)
	if m == nil {
		return ""
	}
	return m[1]
}

type Loaded struct {
	prog  *ssa.Program
	pkgs  map[string]*ssa.Package // by pkgDir
	funcs map[string]*ssa.Function
}

func goEnv() []string {
	env := os.Environ()
	env = append(env, "GOFLAGS=-mod=mod", "GOPROXY=off", "GOSUMDB=off", "GOTOOLCHAIN=local", "CGO_ENABLED=0")
	return env
}

// load type-checks the packages under test together with the harness overlay
// and builds SSA for them and all their dependencies.
func load(verifDir, repo string, pkgDirs []string) (*Loaded, error) {
	hfs := scanHarness(verifDir, repo)
	overlay := map[string][]byte{}
	want := map[string]bool{}
	for _, d := range pkgDirs {
		want[d] = true
	}
	for _, hf := range hfs {
		if !want[hf.PkgDir] {
			continue
		}
		data, err := os.ReadFile(hf.Real)
		if err != nil {
			return nil, err
		}
		overlay[hf.Virtual] = data
		overlaySources[hf.Virtual] = data
	}
	vrtSrc, err := os.ReadFile(filepath.Join(verifDir, "harness", "vrt_sym", "vrt.go"))
	if err != nil {
		return nil, err
	}
	overlay[filepath.Join(repo, "zzverif", "vrt", "vrt.go")] = vrtSrc
	cfg := &packages.Config{Mode: packages.LoadAllSyntax, Dir: repo, Overlay: overlay, Env: goEnv()}
	var pats []string
	for _, d := range pkgDirs {
		pats = append(pats, "./"+d)
	}
	pkgs, err := packages.Load(cfg, pats...)
	if err != nil {
		return nil, err
	}
	var errs []string
	packages.Visit(pkgs, nil, func(p *packages.Package) {
		for _, e := range p.Errors {
			errs = append(errs, e.Error())
		}
	})
	if len(errs) > 0 {
		return nil, fmt.Errorf("load errors:\n%s", strings.Join(errs, "\n"))
	}
	prog, spkgs := ssautil.AllPackages(pkgs, ssa.InstantiateGenerics)
	prog.Build()
	ld := &Loaded{prog: prog, pkgs: map[string]*ssa.Package{}, funcs: map[string]*ssa.Function{}}
	for i, p := range pkgs {
		rel := strings.TrimPrefix(strings.TrimPrefix(p.PkgPath, modPath), "/")
		if rel == "" {
			rel = "."
		}
		ld.pkgs[rel] = spkgs[i]
		for name, m := range spkgs[i].Members {
			if f, ok := m.(*ssa.Function); ok && strings.HasPrefix(name, "VH_") {
				ld.funcs[name] = f
			}
		}
	}
	return ld, nil
}

// gotsInits lists the init functions of all gots packages in dependency order.
func (ld *Loaded) gotsInits() []*ssa.Function {
	var out []*ssa.Function
	seen := map[*ssa.Package]bool{}
	var visit func(p *ssa.Package)
	visit = func(p *ssa.Package) {
		if seen[p] {
			return
		}
		seen[p] = true
		for _, imp := range p.Pkg.Imports() {
			if ip := ld.prog.Package(imp); ip != nil {
				visit(ip)
			}
		}
		if strings.HasPrefix(p.Pkg.Path(), modPath) {
			if f := p.Func("init"); f != nil {
				out = append(out, f)
			}
		}
	}
	var names []string
	for k := range ld.pkgs {
		names = append(names, k)
	}
	sort.Strings(names)
	for _, k := range names {
		visit(ld.pkgs[k])
	}
	return out
}

func writeJSON(path string, v interface{}) error {
	data, err := json.MarshalIndent(v, "", " ")
	if err != nil {
		return err
	}
	os.MkdirAll(filepath.Dir(path), 0755)
	return os.WriteFile(path, append(data, '\n'), 0644)
}
