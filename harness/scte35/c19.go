package scte35

import (
	"github.com/Comcast/gots/v2"
	"github.com/Comcast/gots/v2/zzverif/vrt"
)

// C19 — closing relation = frozen rule table (c19_table.go); in/out lists; Equal is an
// equivalence and a congruence for CanClose. Descriptors are built through the public
// creation/setter API with every relevant field symbolic.

type c19d struct {
	d      SegmentationDescriptor
	typ    uint8
	ev     uint32
	pts    uint64
	hasPTS bool
	seg    uint8
	exp    uint8
	hasSub bool
	sub    uint8
	subExp uint8
}

func c19new(tag string) c19d {
	var r c19d
	r.typ = vrt.Byte(tag + ".type")
	r.ev = vrt.Uint32(tag + ".event")
	r.pts = vrt.Uint64(tag + ".pts")
	vrt.Assume(r.pts < uint64(1)<<33)
	r.hasPTS = vrt.Bool(tag + ".haspts")
	r.seg, r.exp = vrt.Byte(tag+".seg"), vrt.Byte(tag+".exp")
	wantSub := vrt.Bool(tag + ".hassub")
	r.sub, r.subExp = vrt.Byte(tag+".sub"), vrt.Byte(tag+".subexp")

	s := CreateSCTE35()
	cmd := CreateTimeSignalCommand()
	s.SetCommandInfo(cmd)
	cmd.SetHasPTS(r.hasPTS)
	s.SetPTS(gots.PTS(r.pts))
	d := CreateSegmentationDescriptor()
	d.SetHasSubSegments(wantSub)
	d.SetTypeID(SegDescType(r.typ))
	r.hasSub = wantSub && (r.typ == 0x34 || r.typ == 0x36)
	d.SetEventID(r.ev)
	d.SetSegmentNumber(r.seg)
	d.SetSegmentsExpected(r.exp)
	d.SetSubSegmentNumber(r.sub)
	d.SetSubSegmentsExpected(r.subExp)
	s.SetDescriptors([]SegmentationDescriptor{d})
	r.d = d
	return r
}

func c19canClose(in, out c19d) bool {
	switch c19kind(in.typ, out.typ) {
	case 1, 2, 4, 7:
		return true
	case 3:
		return in.ev == out.ev
	case 5:
		return in.pts != out.pts
	case 6:
		return c19isIn(in.typ) && in.ev == out.ev && in.seg == in.exp
	}
	return false
}

func c19equal(a, b c19d) bool {
	return a.typ == b.typ && a.hasPTS && b.hasPTS && a.pts == b.pts && a.ev == b.ev &&
		a.seg == b.seg && a.exp == b.exp && a.hasSub == b.hasSub &&
		(!a.hasSub || (a.sub == b.sub && a.subExp == b.subExp))
}

func VH_C19_Getters() {
	a := c19new("a")
	vrt.Assert(uint8(a.d.TypeID()) == a.typ && a.d.EventID() == a.ev, "type and event id are reported as set")
	vrt.Assert(uint64(a.d.SCTE35().PTS()) == a.pts && a.d.SCTE35().HasPTS() == a.hasPTS, "signal PTS and HasPTS are reported as set")
	vrt.Assert(a.d.SegmentNumber() == a.seg && a.d.SegmentsExpected() == a.exp && a.d.SegmentNum() == a.seg, "segment numbers are reported as set")
	vrt.Assert(a.d.HasSubSegments() == a.hasSub, "sub-segment presence (only for types 0x34/0x36)")
	vrt.Assert(a.d.SubSegmentNumber() == a.sub && a.d.SubSegmentsExpected() == a.subExp, "sub-segment numbers are reported as set")
	vrt.Reach("end")
}

func VH_C19_CanClose() {
	in, out := c19new("in"), c19new("out")
	vrt.Assert(in.d.CanClose(out.d) == c19canClose(in, out), "CanClose agrees with the documented closing-rule table for all 256x256 type pairs and all conditions")
	vrt.Reach("end")
}

func VH_C19_InOut() {
	a := c19new("a")
	vrt.Assert(a.d.IsIn() == c19isIn(a.typ), "IsIn matches the documented list of in types")
	vrt.Assert(a.d.IsOut() == c19isOut(a.typ), "IsOut matches the documented list of out types")
	vrt.Assert(!(a.d.IsIn() && a.d.IsOut()), "no type is both in and out")
	vrt.Reach("end")
}

func VH_C19_Equal() {
	a, b, c := c19new("a"), c19new("b"), c19new("c")
	vrt.Assert(a.d.Equal(b.d) == c19equal(a, b), "Equal = same type, signal time (both with PTS), event id, segment and sub-segment numbers")
	vrt.Assert(a.d.Equal(b.d) == b.d.Equal(a.d), "Equal is symmetric")
	vrt.Assert(!(a.d.Equal(b.d) && b.d.Equal(c.d)) || a.d.Equal(c.d), "Equal is transitive")
	vrt.Assert(a.d.Equal(a.d) == a.hasPTS, "Equal is reflexive exactly on descriptors whose signal has a PTS")
	vrt.Assert(!a.d.Equal(nil), "nothing equals nil")
	vrt.Reach("end")
}

func VH_C19_Congruence() {
	a, b, x := c19new("a"), c19new("b"), c19new("x")
	if a.d.Equal(b.d) {
		vrt.Assert(a.d.CanClose(x.d) == b.d.CanClose(x.d), "equal descriptors close exactly the same descriptors")
		vrt.Assert(x.d.CanClose(a.d) == x.d.CanClose(b.d), "equal descriptors are closed by exactly the same descriptors")
	}
	vrt.Reach("end")
}
