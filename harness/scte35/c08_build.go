package scte35

import "github.com/Comcast/gots/v2/zzverif/vrt"

// Reference encoder for splice_info_section (SCTE 35 section 9), written from the syntax
// tables and shared by C08 (decoder input), C09 (expected encoder output) and C05.
// Shapes (flags that decide the layout, counts, lengths) are concrete; values are symbolic.

type c08comp struct {
	tag     byte
	hasTime bool // splice_insert component: time_specified_flag
	time    uint64
}

type c08cmd struct {
	kind       int // 0 splice_null, 6 time_signal, 5 splice_insert
	pts        uint64
	eventID    uint32
	cancel     bool
	out        bool
	program    bool
	hasDur     bool
	immediate  bool
	comps      []c08comp
	autoReturn bool
	duration   uint64
	uniqueID   uint16
	availNum   byte
	availsExp  byte
}

type c08upid struct {
	typ  byte
	data []byte
}

type c08desc struct {
	foreign    bool
	tag        byte
	body       []byte // foreign descriptor body
	eventID    uint32
	cancel     bool
	program    bool
	hasDur     bool
	dnr        bool
	web        bool
	noBlackout bool
	archive    bool
	device     byte
	offsets    []c08comp // component tag + 33-bit offset in .time
	duration   uint64    // 40 bit
	upidType   byte
	upid       []byte
	mid        []c08upid
	isMID      bool
	typeID     byte
	segNum     byte
	segExp     byte
	hasSub     bool
	subNum     byte
	subExp     byte
}

type c08sig struct {
	ptr      int
	version  byte
	alg      byte
	adj      uint64
	cwIndex  byte
	tier     uint16
	cmd      c08cmd
	descs    []c08desc
	stuffing int
}

// descriptor shapes
type c08dshape struct {
	foreign bool
	flen    int // foreign body length
	cancel  bool
	program bool
	ncomp   int
	hasDur  bool
	dnr     bool
	upidLen int // single UPID length (isMID false)
	isMID   bool
	mid     []int // element lengths
	sub     int   // 0 none, 0x34 / 0x36: sub-segment bytes present with that type
}

// command shapes
type c08cshape struct {
	kind      int
	cancel    bool
	program   bool
	immediate bool
	hasDur    bool
	comps     []bool // component mode: per component time_specified
}

// reserved bits: symbolic for decoder inputs, ones for canonical encoder output
type c08rsv struct{ symbolic bool }

func (r c08rsv) bits(mask byte) byte {
	if r.symbolic {
		return vrt.Byte("reserved") & mask
	}
	return mask
}

func c08u33(name string) uint64 {
	v := vrt.Uint64(name)
	vrt.Assume(v < 1<<33)
	return v
}

func c08symCmd(sh c08cshape) c08cmd {
	c := c08cmd{kind: sh.kind, cancel: sh.cancel, program: sh.program, immediate: sh.immediate, hasDur: sh.hasDur}
	switch sh.kind {
	case 6:
		c.pts = c08u33("cmd.pts")
	case 5:
		c.eventID = vrt.Uint32("cmd.event")
		if !sh.cancel {
			c.out = vrt.Bool("cmd.out")
			if sh.program && !sh.immediate {
				c.pts = c08u33("cmd.pts")
			}
			for _, ts := range sh.comps {
				k := c08comp{tag: vrt.Byte("cmd.comp.tag"), hasTime: ts}
				if ts && !sh.immediate {
					k.time = c08u33("cmd.comp.pts")
				}
				c.comps = append(c.comps, k)
			}
			if sh.hasDur {
				c.autoReturn = vrt.Bool("cmd.auto")
				c.duration = c08u33("cmd.duration")
			}
			c.uniqueID = vrt.Uint16("cmd.upid")
			c.availNum = vrt.Byte("cmd.avail")
			c.availsExp = vrt.Byte("cmd.avails")
		}
	}
	return c
}

func c08symDesc(sh c08dshape) c08desc {
	d := c08desc{foreign: sh.foreign, cancel: sh.cancel, program: sh.program, hasDur: sh.hasDur, dnr: sh.dnr, isMID: sh.isMID}
	if sh.foreign {
		d.tag = vrt.Byte("fdesc.tag")
		vrt.Assume(d.tag != 0x02)
		d.body = make([]byte, sh.flen)
		vrt.Bytes("fdesc.body", d.body)
		return d
	}
	d.tag = 0x02
	d.eventID = vrt.Uint32("desc.event")
	if sh.cancel {
		return d
	}
	if !sh.dnr {
		d.web, d.noBlackout, d.archive = vrt.Bool("desc.web"), vrt.Bool("desc.noblackout"), vrt.Bool("desc.archive")
		d.device = vrt.Byte("desc.device") & 3
	}
	if !sh.program {
		for i := 0; i < sh.ncomp; i++ {
			d.offsets = append(d.offsets, c08comp{tag: vrt.Byte("desc.comp.tag"), time: c08u33("desc.comp.offset")})
		}
	}
	if sh.hasDur {
		d.duration = vrt.Uint64("desc.duration")
		vrt.Assume(d.duration < 1<<40)
	}
	if sh.isMID {
		d.upidType = 0x0D
		for _, n := range sh.mid {
			u := c08upid{typ: vrt.Byte("desc.mid.type"), data: make([]byte, n)}
			vrt.Bytes("desc.mid.data", u.data)
			d.mid = append(d.mid, u)
		}
	} else {
		d.upidType = vrt.Byte("desc.upidtype")
		vrt.Assume(d.upidType != 0x0D)
		d.upid = make([]byte, sh.upidLen)
		vrt.Bytes("desc.upid", d.upid)
	}
	d.segNum, d.segExp = vrt.Byte("desc.segnum"), vrt.Byte("desc.segexp")
	if sh.sub != 0 {
		d.typeID = byte(sh.sub)
		d.hasSub = true
		d.subNum, d.subExp = vrt.Byte("desc.subnum"), vrt.Byte("desc.subexp")
	} else {
		d.typeID = vrt.Byte("desc.type")
	}
	return d
}

func c08spliceTime(r c08rsv, specified bool, t uint64) []byte {
	if !specified {
		return []byte{r.bits(0x7F)}
	}
	return []byte{0x80 | r.bits(0x7E) | byte(t>>32)&1, byte(t >> 24), byte(t >> 16), byte(t >> 8), byte(t)}
}

func c08cmdBytes(r c08rsv, c c08cmd) []byte {
	switch c.kind {
	case 0:
		return nil
	case 6:
		return c08spliceTime(r, true, c.pts)
	}
	b := []byte{byte(c.eventID >> 24), byte(c.eventID >> 16), byte(c.eventID >> 8), byte(c.eventID)}
	if c.cancel {
		return append(b, 0x80|r.bits(0x7F))
	}
	b = append(b, r.bits(0x7F))
	var f byte
	if c.out {
		f |= 0x80
	}
	if c.program {
		f |= 0x40
	}
	if c.hasDur {
		f |= 0x20
	}
	if c.immediate {
		f |= 0x10
	}
	b = append(b, f|r.bits(0x0F))
	if c.program && !c.immediate {
		b = append(b, c08spliceTime(r, true, c.pts)...)
	}
	if !c.program {
		b = append(b, byte(len(c.comps)))
		for _, k := range c.comps {
			b = append(b, k.tag)
			if !c.immediate {
				b = append(b, c08spliceTime(r, k.hasTime, k.time)...)
			}
		}
	}
	if c.hasDur {
		var a byte
		if c.autoReturn {
			a = 0x80
		}
		b = append(b, a|r.bits(0x7E)|byte(c.duration>>32)&1, byte(c.duration>>24), byte(c.duration>>16), byte(c.duration>>8), byte(c.duration))
	}
	return append(b, byte(c.uniqueID>>8), byte(c.uniqueID), c.availNum, c.availsExp)
}

func c08descBytes(r c08rsv, d c08desc) []byte {
	if d.foreign {
		return append([]byte{d.tag, byte(len(d.body))}, d.body...)
	}
	b := []byte{0x43, 0x55, 0x45, 0x49, byte(d.eventID >> 24), byte(d.eventID >> 16), byte(d.eventID >> 8), byte(d.eventID)}
	if d.cancel {
		b = append(b, 0x80|r.bits(0x7F))
		return append([]byte{0x02, byte(len(b))}, b...)
	}
	b = append(b, r.bits(0x7F))
	var f byte
	if d.program {
		f |= 0x80
	}
	if d.hasDur {
		f |= 0x40
	}
	if d.dnr {
		f |= 0x20 | r.bits(0x1F)
	} else {
		if d.web {
			f |= 0x10
		}
		if d.noBlackout {
			f |= 0x08
		}
		if d.archive {
			f |= 0x04
		}
		f |= d.device & 3
	}
	b = append(b, f)
	if !d.program {
		b = append(b, byte(len(d.offsets)))
		for _, k := range d.offsets {
			b = append(b, k.tag, r.bits(0xFE)|byte(k.time>>32)&1, byte(k.time>>24), byte(k.time>>16), byte(k.time>>8), byte(k.time))
		}
	}
	if d.hasDur {
		b = append(b, byte(d.duration>>32), byte(d.duration>>24), byte(d.duration>>16), byte(d.duration>>8), byte(d.duration))
	}
	if d.isMID {
		var m []byte
		for _, u := range d.mid {
			m = append(m, u.typ, byte(len(u.data)))
			m = append(m, u.data...)
		}
		b = append(b, 0x0D, byte(len(m)))
		b = append(b, m...)
	} else {
		b = append(b, d.upidType, byte(len(d.upid)))
		b = append(b, d.upid...)
	}
	b = append(b, d.typeID, d.segNum, d.segExp)
	if d.hasSub {
		b = append(b, d.subNum, d.subExp)
	}
	return append([]byte{0x02, byte(len(b))}, b...)
}

// c08section returns pointer_field + filler + the section, and the offset of the CRC field.
// crc nil: four symbolic bytes (the decoder does not check the CRC).
func c08section(r c08rsv, s c08sig, crc []byte) []byte {
	cmd := c08cmdBytes(r, s.cmd)
	var descs []byte
	for _, d := range s.descs {
		descs = append(descs, c08descBytes(r, d)...)
	}
	body := []byte{s.version, (s.alg&0x3F)<<1 | byte(s.adj>>32)&1, byte(s.adj >> 24), byte(s.adj >> 16), byte(s.adj >> 8), byte(s.adj), s.cwIndex,
		byte(s.tier >> 4), byte(s.tier<<4) | byte(len(cmd)>>8)&0x0F, byte(len(cmd)), byte(s.cmd.kind)}
	body = append(body, cmd...)
	body = append(body, byte(len(descs)>>8), byte(len(descs)))
	body = append(body, descs...)
	for i := 0; i < s.stuffing; i++ {
		body = append(body, 0)
	}
	sl := len(body) + 4
	hdr := []byte{0xFC, r.bits(0x30) | byte(sl>>8)&0x0F, byte(sl)}
	sec := append(hdr, body...)
	if crc == nil {
		crc = make([]byte, 4)
		vrt.Bytes("crc", crc)
	} else if len(crc) == 0 {
		// canonical: CRC_32 over everything before it (ComputeCRC is stubbed by the same uninterpreted function)
		u := vrt.UF32("crc", sec)
		crc = []byte{byte(u >> 24), byte(u >> 16), byte(u >> 8), byte(u)}
	}
	sec = append(sec, crc...)
	out := []byte{byte(s.ptr)}
	fill := make([]byte, s.ptr)
	vrt.Bytes("filler", fill)
	out = append(out, fill...)
	return append(out, sec...)
}

func c08symSig(ptr int, cs c08cshape, ds []c08dshape) c08sig {
	s := c08sig{ptr: ptr}
	s.version = vrt.Byte("version")
	s.alg = vrt.Byte("alg") & 0x3F
	s.adj = c08u33("pts_adjustment")
	s.cwIndex = vrt.Byte("cw_index")
	s.tier = vrt.Uint16("tier") & 0xFFF
	s.cmd = c08symCmd(cs)
	for _, d := range ds {
		s.descs = append(s.descs, c08symDesc(d))
	}
	return s
}

func c08cmdShapes() []c08cshape {
	out := []c08cshape{
		{kind: 0},
		{kind: 6},
		{kind: 5, cancel: true},
	}
	for _, dur := range []bool{false, true} {
		out = append(out,
			c08cshape{kind: 5, program: true, immediate: true, hasDur: dur},
			c08cshape{kind: 5, program: true, hasDur: dur},
			c08cshape{kind: 5, immediate: true, hasDur: dur, comps: []bool{}},
			c08cshape{kind: 5, immediate: true, hasDur: dur, comps: []bool{false, false}},
			c08cshape{kind: 5, hasDur: dur, comps: []bool{true}},
			c08cshape{kind: 5, hasDur: dur, comps: []bool{true, false}},
		)
	}
	return out
}

func c08descShapes() []c08dshape {
	out := []c08dshape{
		{cancel: true},
		{foreign: true, flen: 0},
		{foreign: true, flen: 3},
	}
	// the product of the layout-deciding choices
	type upidShape struct {
		isMID bool
		n     int
		mid   []int
	}
	upids := []upidShape{{false, 0, nil}, {false, 2, nil}, {true, 0, []int{}}, {true, 0, []int{0, 1}}}
	if vrt.Tier() == 1 {
		upids = append(upids, upidShape{false, 1, nil}, upidShape{false, 3, nil}, upidShape{true, 0, []int{2}}, upidShape{true, 0, []int{1, 2}})
	}
	comps := []int{-1, 0, 2} // -1: program segmentation
	if vrt.Tier() == 1 {
		comps = []int{-1, 0, 1, 2}
	}
	for _, nc := range comps {
		for _, dur := range []bool{false, true} {
			for _, dnr := range []bool{false, true} {
				for _, u := range upids {
					for _, sub := range []int{0, 0x34, 0x36} {
						if sub == 0x36 && vrt.Tier() == 0 && (dnr || nc == 0) {
							continue
						}
						d := c08dshape{program: nc < 0, hasDur: dur, dnr: dnr, isMID: u.isMID, upidLen: u.n, mid: u.mid, sub: sub}
						if nc > 0 {
							d.ncomp = nc
						}
						out = append(out, d)
					}
				}
			}
		}
	}
	return out
}
