package scte35

import (
	"github.com/Comcast/gots/v2"
	"github.com/Comcast/gots/v2/zzverif/vrt"
)

// C08 — SCTE-35 decoding reports exactly the encoded field values.

func c08checkCmd(s SCTE35, m c08sig) {
	c := m.cmd
	vrt.Assert(int(s.Command()) == c.kind, "splice_command_type")
	ci := s.CommandInfo()
	vrt.Assert(ci != nil && int(ci.CommandType()) == c.kind, "command object of the right type")
	mask := uint64(1)<<33 - 1
	switch c.kind {
	case 0:
		vrt.Assert(!s.HasPTS() && !ci.HasPTS(), "splice_null carries no time")
	case 6:
		vrt.Assert(ci.HasPTS() && s.HasPTS(), "time_signal with a specified time has a PTS")
		vrt.Assert(uint64(ci.PTS()) == c.pts, "time_signal pts_time")
		vrt.Assert(uint64(s.PTS()) == (c.pts+m.adj)&mask, "signal PTS = (pts_time + pts_adjustment) mod 2^33")
	case 5:
		in, ok := ci.(SpliceInsertCommand)
		vrt.Assert(ok, "splice_insert command object")
		if !ok {
			return
		}
		vrt.Assert(in.EventID() == c.eventID, "splice_event_id")
		vrt.Assert(in.IsEventCanceled() == c.cancel, "splice_event_cancel_indicator")
		if c.cancel {
			return
		}
		vrt.Assert(in.IsOut() == c.out, "out_of_network_indicator")
		vrt.Assert(in.IsProgramSplice() == c.program, "program_splice_flag")
		vrt.Assert(in.HasDuration() == c.hasDur, "duration_flag")
		vrt.Assert(in.SpliceImmediate() == c.immediate, "splice_immediate_flag")
		timed := c.program && !c.immediate
		vrt.Assert(in.HasPTS() == timed && s.HasPTS() == timed, "a program splice that is not immediate carries a time")
		if timed {
			vrt.Assert(uint64(in.PTS()) == c.pts, "splice_insert pts_time")
			vrt.Assert(uint64(s.PTS()) == (c.pts+m.adj)&mask, "signal PTS = (pts_time + pts_adjustment) mod 2^33")
		}
		comps := in.Components()
		if c.program {
			vrt.Assert(len(comps) == 0, "no components in program splice mode")
		} else {
			vrt.Assert(len(comps) == len(c.comps), "component_count")
			for i := 0; i < len(comps) && i < len(c.comps); i++ {
				vrt.Assert(comps[i].ComponentTag() == c.comps[i].tag, "component_tag")
				if !c.immediate {
					vrt.Assert(comps[i].HasPTS() == c.comps[i].hasTime, "component time_specified_flag")
					if c.comps[i].hasTime {
						vrt.Assert(uint64(comps[i].PTS()) == c.comps[i].time, "component pts_time")
					}
				}
			}
		}
		if c.hasDur {
			vrt.Assert(in.IsAutoReturn() == c.autoReturn, "auto_return")
			vrt.Assert(uint64(in.Duration()) == c.duration, "break duration (33 bits)")
		}
		vrt.Assert(in.UniqueProgramId() == c.uniqueID && in.AvailNum() == c.availNum && in.AvailsExpected() == c.availsExp, "unique_program_id, avail_num, avails_expected")
	}
}

func c08sameBytes(a, b []byte, msg string) {
	vrt.Assert(len(a) == len(b), msg)
	for i := 0; i < len(a) && i < len(b); i++ {
		vrt.Assert(a[i] == b[i], msg)
	}
}

func c08checkDescs(s SCTE35, m c08sig) {
	var segs []c08desc
	for _, d := range m.descs {
		if !d.foreign {
			segs = append(segs, d)
		}
	}
	ds := s.Descriptors()
	vrt.Assert(len(ds) == len(segs), "exactly the segmentation descriptors are reported, foreign descriptors are skipped")
	for i := 0; i < len(ds) && i < len(segs); i++ {
		d, w := ds[i], segs[i]
		vrt.Assert(d.SCTE35() == s, "every descriptor refers back to its enclosing signal")
		vrt.Assert(d.EventID() == w.eventID, "segmentation_event_id")
		vrt.Assert(d.IsEventCanceled() == w.cancel, "segmentation_event_cancel_indicator")
		if w.cancel {
			continue
		}
		vrt.Assert(d.HasProgramSegmentation() == w.program, "program_segmentation_flag")
		vrt.Assert(d.HasDuration() == w.hasDur, "segmentation_duration_flag")
		vrt.Assert(d.IsDeliveryNotRestricted() == w.dnr, "delivery_not_restricted_flag")
		if !w.dnr {
			vrt.Assert(d.IsWebDeliveryAllowed() == w.web && d.HasNoRegionalBlackout() == w.noBlackout && d.IsArchiveAllowed() == w.archive && byte(d.DeviceRestrictions()) == w.device, "delivery restriction flags")
		}
		offs := d.Components()
		if w.program {
			vrt.Assert(len(offs) == 0, "no component list with program segmentation")
		} else {
			vrt.Assert(len(offs) == len(w.offsets), "component_count of the descriptor")
			for j := 0; j < len(offs) && j < len(w.offsets); j++ {
				vrt.Assert(offs[j].ComponentTag() == w.offsets[j].tag, "descriptor component_tag")
				vrt.Assert(uint64(offs[j].PTSOffset()) == w.offsets[j].time, "descriptor component 33-bit pts_offset")
			}
		}
		if w.hasDur {
			vrt.Assert(uint64(d.Duration()) == w.duration, "40-bit segmentation_duration")
		}
		vrt.Assert(byte(d.UPIDType()) == w.upidType, "segmentation_upid_type")
		if w.isMID {
			mid := d.MID()
			vrt.Assert(len(mid) == len(w.mid), "number of UPIDs in the multiple-UPID list")
			for j := 0; j < len(mid) && j < len(w.mid); j++ {
				vrt.Assert(byte(mid[j].UPIDType()) == w.mid[j].typ, "MID element type")
				c08sameBytes(mid[j].UPID(), w.mid[j].data, "MID element bytes")
			}
			vrt.Assert(len(d.UPID()) == 0, "no single UPID when a MID is present")
		} else {
			c08sameBytes(d.UPID(), w.upid, "segmentation_upid bytes")
			vrt.Assert(len(d.MID()) == 0, "no MID list for a single UPID")
		}
		vrt.Assert(byte(d.TypeID()) == w.typeID, "segmentation_type_id")
		vrt.Assert(d.SegmentNumber() == w.segNum && d.SegmentsExpected() == w.segExp, "segment_num / segments_expected")
		vrt.Assert(d.HasSubSegments() == w.hasSub, "sub-segment fields present")
		if w.hasSub {
			vrt.Assert(d.SubSegmentNumber() == w.subNum && d.SubSegmentsExpected() == w.subExp, "sub_segment_num / sub_segments_expected")
		}
	}
}

func c08decode(ptr int, cs c08cshape, ds []c08dshape) {
	m := c08symSig(ptr, cs, ds)
	in := c08section(c08rsv{symbolic: true}, m, nil)
	keep := append([]byte{}, in...)
	s, err := NewSCTE35(in)
	vrt.Assert(err == nil && s != nil, "a well-formed splice_info_section decodes")
	if err != nil || s == nil {
		vrt.Reach("end")
		return
	}
	vrt.Assert(s.Tier() == m.tier, "tier")
	c08checkCmd(s, m)
	c08checkDescs(s, m)
	c08sameBytes(s.Data(), keep[1+ptr:], "Data() is the section without pointer field and filler")
	c08sameBytes(in, keep, "decoding does not modify the input")
	vrt.Reach("end")
}

// every command shape with one segmentation descriptor
func VH_C08_Commands() {
	cs := c08cmdShapes()
	c := cs[vrt.Choose("command", 0, len(cs)-1)]
	ptr := vrt.Choose("pointer", 0, 2)
	c08decode(ptr, c, []c08dshape{{program: true, hasDur: true, upidLen: 1}})
}

// every descriptor shape under a time_signal
func VH_C08_Descriptors() {
	ds := c08descShapes()
	d := ds[vrt.Choose("descriptor", 0, len(ds)-1)]
	c08decode(0, c08cshape{kind: 6}, []c08dshape{d})
}

// descriptor pairs and the empty loop. quick: every shape first, one derived partner; thorough:
// every shape first, 17 partners (16 spread over the shape list + the derived one). The full
// square (387^2 x 2 = 300k jobs) was tried and does not finish in 45 min.
func VH_C08_Pairs() {
	ds := c08descShapes()
	var i, j int
	if vrt.Tier() == 0 {
		k := vrt.Choose("pair", 0, len(ds)-1)
		i, j = k, (k*5+3)%len(ds)
	} else {
		i = vrt.Choose("first", 0, len(ds)-1)
		k := vrt.Choose("second", 0, 16)
		if k == 16 {
			j = (i*5 + 3) % len(ds)
		} else {
			j = (k*len(ds)/16 + k) % len(ds)
		}
	}
	cmd := vrt.Choose("command", 0, 1)
	cs := []c08cshape{{kind: 0}, {kind: 5, program: true, hasDur: true}}[cmd]
	c08decode(1, cs, []c08dshape{ds[i], ds[j]})
}

func VH_C08_NoDescriptors() {
	cs := c08cmdShapes()
	c := cs[vrt.Choose("command", 0, len(cs)-1)]
	c08decode(0, c, nil)
}

func VH_C08_Errors() {
	which := vrt.Choose("error", 0, 3)
	m := c08symSig(0, c08cshape{kind: 6}, []c08dshape{{program: true, upidLen: 0}})
	in := c08section(c08rsv{symbolic: true}, m, nil)
	switch which {
	case 0: // unsupported command type
		t := vrt.Byte("badtype")
		vrt.Assume(t != 0 && t != 5 && t != 6)
		in[1+3+10] = t
		s, err := NewSCTE35(in)
		vrt.Assert(s == nil && err == gots.ErrSCTE35UnsupportedSpliceCommand, "unsupported command types are rejected")
	case 1: // encrypted
		in[1+3+1] |= 0x80
		s, err := NewSCTE35(in)
		vrt.Assert(s == nil && err == gots.ErrSCTE35EncryptionUnsupported, "encrypted sections are rejected")
	case 2: // table id
		t := vrt.Byte("tableid")
		vrt.Assume(t != 0xFC)
		in[1] = t
		s, err := NewSCTE35(in)
		vrt.Assert(s == nil && err == gots.ErrUnknownTableID, "unknown table ids are rejected")
	case 3: // identifier
		off := 1 + 3 + 11 + 5 + 2 + 2
		id := make([]byte, 4)
		vrt.Bytes("identifier", id)
		vrt.Assume(!(id[0] == 0x43 && id[1] == 0x55 && id[2] == 0x45 && id[3] == 0x49))
		copy(in[off:off+4], id)
		s, err := NewSCTE35(in)
		vrt.Assert(s == nil && err == gots.ErrSCTE35InvalidDescriptorID, "segmentation descriptors whose identifier is not CUEI are rejected")
	}
	vrt.Reach("end")
}
