package scte35

import (
	"github.com/Comcast/gots/v2"
	"github.com/Comcast/gots/v2/zzverif/vrt"
)

// C09 — SCTE-35 encoding is canonical and inverse to decoding. The CRC field is checked
// structurally: gots.ComputeCRC is replaced by an uninterpreted function (vrt.StubCRC) and the
// last four bytes must be UF(all preceding section bytes); that ComputeCRC is CRC-32/MPEG-2 is C13.

var c09canon = c08rsv{symbolic: false}

func c09apiDesc(w c08desc) SegmentationDescriptor {
	d := CreateSegmentationDescriptor()
	c09applyDesc(d, w, nil)
	return d
}

// c09applyDesc brings d to the logical value w through the setter API. With prev == nil every
// setter is called (values of absent fields are set to their zero value). With prev != nil (the
// value d currently holds) only what a caller must do is done: presence flags always, values only
// for fields that are present in w — stale values of absent fields stay in the object and must
// not leak into the encoding.
func c09applyDesc(d SegmentationDescriptor, w c08desc, prev *c08desc) {
	minimal := prev != nil
	d.SetEventID(w.eventID)
	d.SetIsEventCanceled(w.cancel)
	if minimal && w.cancel {
		return
	}
	d.SetHasProgramSegmentation(w.program)
	d.SetHasDuration(w.hasDur)
	if !minimal || w.hasDur {
		d.SetDuration(gots.PTS(w.duration))
	}
	d.SetIsDeliveryNotRestricted(w.dnr)
	if !minimal || !w.dnr {
		d.SetIsWebDeliveryAllowed(w.web)
		d.SetHasNoRegionalBlackout(w.noBlackout)
		d.SetIsArchiveAllowed(w.archive)
		d.SetDeviceRestrictions(DeviceRestrictions(w.device))
	}
	if !minimal || !w.program {
		var offs []ComponentOffset
		for _, k := range w.offsets {
			o := CreateComponentOffset()
			o.SetComponentTag(k.tag)
			o.SetPTSOffset(gots.PTS(k.time))
			offs = append(offs, o)
		}
		d.SetComponents(offs)
	}
	d.SetUPIDType(SegUPIDType(w.upidType))
	if w.isMID {
		var mid []UPID
		for _, u := range w.mid {
			e := CreateUPID()
			e.SetUPIDType(SegUPIDType(u.typ))
			e.SetUPID(u.data)
			mid = append(mid, e)
		}
		d.SetMID(mid)
	} else if !minimal || len(w.upid) > 0 || (!prev.isMID && !prev.cancel && len(prev.upid) > 0 && w.upidType != 0) {
		// switching between ordinary UPID types keeps the old UPID (documented: "only one can be
		// set at a time" clears the other kind only), so an empty new UPID has to be set then
		d.SetUPID(w.upid)
	}
	d.SetTypeID(SegDescType(w.typeID))
	d.SetSegmentNumber(w.segNum)
	d.SetSegmentsExpected(w.segExp)
	d.SetHasSubSegments(w.hasSub)
	if !minimal || w.hasSub {
		d.SetSubSegmentNumber(w.subNum)
		d.SetSubSegmentsExpected(w.subExp)
	}
}

func c09apiCmd(c c08cmd, hasTime bool) SpliceCommand {
	switch c.kind {
	case 0:
		return CreateSpliceNull()
	case 6:
		t := CreateTimeSignalCommand()
		t.SetHasPTS(hasTime)
		t.SetPTS(gots.PTS(c.pts))
		return t
	}
	in := CreateSpliceInsertCommand()
	c09applyInsert(in, c, hasTime, false)
	return in
}

// c09applyInsert brings a splice_insert to the logical value c through the setter API; minimal:
// flags always, values only for the fields present in c (stale values must not reach the encoding).
func c09applyInsert(in SpliceInsertCommand, c c08cmd, hasTime bool, minimal bool) {
	in.SetEventID(c.eventID)
	in.SetIsEventCanceled(c.cancel)
	if minimal && c.cancel {
		return
	}
	in.SetIsOut(c.out)
	in.SetIsProgramSplice(c.program)
	in.SetSpliceImmediate(c.immediate)
	in.SetHasPTS(hasTime)
	if !minimal || (c.program && !c.immediate && hasTime) {
		in.SetPTS(gots.PTS(c.pts))
	}
	in.SetHasDuration(c.hasDur)
	if !minimal || c.hasDur {
		in.SetIsAutoReturn(c.autoReturn)
		in.SetDuration(gots.PTS(c.duration))
	}
	in.SetUniqueProgramId(c.uniqueID)
	in.SetAvailNum(c.availNum)
	in.SetAvailsExpected(c.availsExp)
}

// API-reachable command shapes (splice_insert components cannot be set through the API)
func c09cmdShapes() []c08cshape {
	out := []c08cshape{{kind: 0}, {kind: 6}, {kind: 5, cancel: true}}
	for _, dur := range []bool{false, true} {
		out = append(out,
			c08cshape{kind: 5, program: true, immediate: true, hasDur: dur},
			c08cshape{kind: 5, program: true, hasDur: dur},
			c08cshape{kind: 5, immediate: true, hasDur: dur, comps: []bool{}},
			c08cshape{kind: 5, hasDur: dur, comps: []bool{}},
		)
	}
	return out
}

func c09apiDescShapes() []c08dshape {
	var out []c08dshape
	for _, d := range c08descShapes() {
		if !d.foreign {
			out = append(out, d)
		}
	}
	return out
}

// (a) + (c) + (d) + (f): built through the creation/setter API
func c09build(cs c08cshape, ds []c08dshape, hasTime bool, stuffing int) {
	m := c08symSig(0, cs, ds)
	m.version, m.alg, m.cwIndex = 0, 0, 0
	m.stuffing = stuffing
	tier := vrt.Uint16("tier.raw")
	m.tier = tier & 0xFFF
	target := c08u33("adjusted_pts")
	s := CreateSCTE35()
	before := s.Data()
	s.SetTier(tier)
	cmd := c09apiCmd(m.cmd, hasTime)
	s.SetCommandInfo(cmd)
	var descs []SegmentationDescriptor
	for _, w := range m.descs {
		descs = append(descs, c09apiDesc(w))
	}
	s.SetDescriptors(descs)
	s.SetAlignmentStuffing(uint(stuffing))
	s.SetAdjustPTS(gots.PTS(target))
	m.adj = (target - m.cmd.pts) & (1<<33 - 1)
	vrt.Assert(len(s.Data()) == len(before), "the raw-data accessor does not change before the signal is re-encoded")
	vrt.Assert(s.Tier() == m.tier, "tier is truncated to 12 bits")
	vrt.Assert(int(s.Command()) == cs.kind, "command type follows SetCommandInfo")
	// reference for a time_signal without time: splice_time with time_specified_flag 0
	ref := m
	if cs.kind == 6 && !hasTime {
		// built below by hand: the reference builder always specifies the time of a time_signal
		ref.cmd.kind = 6
	}
	vrt.StubCRC(true)
	got := s.UpdateData()
	again := s.UpdateData()
	vrt.StubCRC(false)
	var want []byte
	if cs.kind == 6 && !hasTime {
		want = c09timeSignalNoTime(m)
	} else {
		want = c08section(c09canon, ref, []byte{})[1:]
	}
	c08sameBytes(got, want, "UpdateData() produces the canonical splice_info_section for the field values")
	c08sameBytes(again, got, "encoding is idempotent")
	c08sameBytes(s.Data(), got, "Data() returns the bytes of the last encoding")
	// (c) decoding the encoded bytes reports the same values (syntax the decoder supports)
	decodable := cs.kind == 0 || (cs.kind == 6 && hasTime) || (cs.kind == 5 && (cs.cancel || (cs.program && (cs.immediate || hasTime)) || !cs.program))
	if decodable {
		in := append([]byte{0}, got...)
		back, err := NewSCTE35(in)
		vrt.Assert(err == nil && back != nil, "the encoded section decodes")
		if err == nil && back != nil {
			vrt.Assert(back.Tier() == m.tier, "tier survives encode/decode")
			mm := m
			if cs.kind == 5 && cs.program && cs.immediate {
				mm.cmd.pts = 0
			}
			c08checkCmd(back, mm)
			c08checkDescs(back, mm)
		}
	}
	vrt.Reach("end")
}

// time_signal whose time_specified_flag is cleared: splice_time is one byte, flag 0 + seven reserved ones
func c09timeSignalNoTime(m c08sig) []byte {
	var descs []byte
	for _, d := range m.descs {
		descs = append(descs, c08descBytes(c09canon, d)...)
	}
	body := []byte{0, byte(m.adj>>32) & 1, byte(m.adj >> 24), byte(m.adj >> 16), byte(m.adj >> 8), byte(m.adj), 0,
		byte(m.tier >> 4), byte(m.tier<<4) | 0, 1, 6, 0x7F}
	body = append(body, byte(len(descs)>>8), byte(len(descs)))
	body = append(body, descs...)
	for i := 0; i < m.stuffing; i++ {
		body = append(body, 0)
	}
	sl := len(body) + 4
	sec := append([]byte{0xFC, 0x30 | byte(sl>>8)&0x0F, byte(sl)}, body...)
	u := vrt.UF32("crc", sec)
	return append(sec, byte(u>>24), byte(u>>16), byte(u>>8), byte(u))
}

func VH_C09_BuildCommands() {
	cs := c09cmdShapes()
	c := cs[vrt.Choose("command", 0, len(cs)-1)]
	hasTime := true
	if c.kind == 6 {
		// a program splice with an unspecified time is covered by VH_C09_UnspecifiedSpliceTime
		hasTime = vrt.Choose("hasTime", 0, 1) == 1
	}
	stuffing := vrt.Choose("stuffing", 0, 2)
	c09build(c, []c08dshape{{program: true, hasDur: true, upidLen: 1}}, hasTime, stuffing)
}

func VH_C09_BuildDescriptors() {
	ds := c09apiDescShapes()
	d := ds[vrt.Choose("descriptor", 0, len(ds)-1)]
	second := vrt.Choose("second", 0, 1)
	list := []c08dshape{d}
	if second == 1 {
		list = append(list, c08dshape{cancel: true})
	}
	c09build(c08cshape{kind: 6}, list, true, 0)
}

func VH_C09_BuildNoDescriptors() {
	cs := c09cmdShapes()
	c := cs[vrt.Choose("command", 0, len(cs)-1)]
	if c.kind == 5 && c.program && !c.immediate && !c.cancel {
		c09build(c, nil, true, 0)
		return
	}
	c09build(c, nil, true, 0)
}

// (b) decode then re-encode a canonical section: byte identical
func c09reencode(ptr int, cs c08cshape, ds []c08dshape, knownOrder bool) {
	m := c08symSig(ptr, cs, ds)
	in := c08section(c09canon, m, []byte{})
	s, err := NewSCTE35(in)
	vrt.Assert(err == nil && s != nil, "a canonical section decodes")
	if err != nil || s == nil {
		vrt.Reach("end")
		return
	}
	vrt.StubCRC(true)
	out := s.UpdateData()
	out2 := s.UpdateData()
	vrt.StubCRC(false)
	want := in[1+ptr:]
	same := len(out) == len(want)
	for i := 0; i < len(out) && i < len(want); i++ {
		if out[i] != want[i] {
			same = false
		}
	}
	if knownOrder {
		vrt.AssertKnown(same, "C09-F1", true, "re-encoding a decoded canonical section reproduces it byte for byte")
	} else {
		vrt.Assert(same, "re-encoding a decoded canonical section reproduces it byte for byte")
	}
	c08sameBytes(out2, out, "encoding is idempotent")
	vrt.Reach("end")
}

func VH_C09_ReencodeCommands() {
	cs := c08cmdShapes()
	c := cs[vrt.Choose("command", 0, len(cs)-1)]
	ptr := vrt.Choose("pointer", 0, 1)
	c09reencode(ptr, c, []c08dshape{{program: true, hasDur: true, upidLen: 1}}, false)
}

func VH_C09_ReencodeDescriptors() {
	ds := c08descShapes()
	d := ds[vrt.Choose("descriptor", 0, len(ds)-1)]
	c09reencode(0, c08cshape{kind: 6}, []c08dshape{d}, false)
}

func VH_C09_ReencodePairs() {
	ds := c08descShapes()
	var i, j int
	if vrt.Tier() == 0 {
		k := vrt.Choose("pair", 0, len(ds)-1)
		i, j = k, (k*5+3)%len(ds)
	} else {
		// every shape first, 17 partners (16 spread over the list + the derived one); the full
		// square (150k jobs) takes over an hour
		i = vrt.Choose("first", 0, len(ds)-1)
		k := vrt.Choose("second", 0, 16)
		if k == 16 {
			j = (i*5 + 3) % len(ds)
		} else {
			j = (k*len(ds)/16 + k) % len(ds)
		}
	}
	// known finding C09-F1: a foreign descriptor that FOLLOWS a segmentation descriptor is re-emitted before it
	known := !ds[i].foreign && ds[j].foreign
	c09reencode(0, c08cshape{kind: 0}, []c08dshape{ds[i], ds[j]}, known)
}

// (e) setters are reflected by getters, flags can be cleared, values are truncated to the field width
func VH_C09_Setters() {
	s := CreateSCTE35()
	ts := CreateTimeSignalCommand()
	s.SetCommandInfo(ts)
	flag := vrt.Bool("flag")
	s.SetHasPTS(true)
	s.SetHasPTS(flag)
	vrt.Assert(s.HasPTS() == flag && ts.HasPTS() == flag, "SetHasPTS is reflected by HasPTS (set and clear)")
	p := vrt.Uint64("pts")
	s.SetPTS(gots.PTS(p))
	vrt.Assert(uint64(ts.PTS()) == p&(1<<33-1), "SetPTS truncates the command time to 33 bits")
	ts.SetPTS(gots.PTS(p))
	vrt.Assert(uint64(ts.PTS()) == p&(1<<33-1), "command SetPTS truncates to 33 bits")
	tier := vrt.Uint16("tier")
	s.SetTier(tier)
	vrt.Assert(s.Tier() == tier&0xFFF, "SetTier truncates to 12 bits")
	n := uint(vrt.Byte("stuffing"))
	s.SetAlignmentStuffing(n)
	vrt.Assert(s.AlignmentStuffing() == n, "alignment stuffing")

	in := CreateSpliceInsertCommand()
	b := vrt.Bool("b")
	in.SetIsEventCanceled(true)
	in.SetIsEventCanceled(b)
	in.SetIsOut(true)
	in.SetIsOut(b)
	in.SetIsProgramSplice(!b)
	in.SetHasDuration(true)
	in.SetHasDuration(b)
	in.SetSpliceImmediate(true)
	in.SetSpliceImmediate(b)
	in.SetIsAutoReturn(true)
	in.SetIsAutoReturn(b)
	in.SetHasPTS(true)
	in.SetHasPTS(b)
	vrt.Assert(in.IsEventCanceled() == b && in.IsOut() == b && in.IsProgramSplice() == !b && in.HasDuration() == b && in.SpliceImmediate() == b && in.IsAutoReturn() == b && in.HasPTS() == b, "splice_insert flags can be cleared as well as set")
	ev := vrt.Uint32("event")
	in.SetEventID(ev)
	in.SetPTS(gots.PTS(p))
	u16 := vrt.Uint16("unique")
	a, e := vrt.Byte("avail"), vrt.Byte("avails")
	in.SetUniqueProgramId(u16)
	in.SetAvailNum(a)
	in.SetAvailsExpected(e)
	vrt.Assert(in.EventID() == ev && uint64(in.PTS()) == p&(1<<33-1) && in.UniqueProgramId() == u16 && in.AvailNum() == a && in.AvailsExpected() == e, "splice_insert values are reflected")

	c := CreateComponent()
	c.SetComponentTag(a)
	c.SetHasPTS(true)
	c.SetHasPTS(b)
	c.SetPTS(gots.PTS(p))
	vrt.Assert(c.ComponentTag() == a && c.HasPTS() == b && uint64(c.PTS()) == p&(1<<33-1), "component setters")

	d := CreateSegmentationDescriptor()
	d.SetIsEventCanceled(true)
	d.SetIsEventCanceled(b)
	d.SetHasProgramSegmentation(true)
	d.SetHasProgramSegmentation(b)
	d.SetHasDuration(true)
	d.SetHasDuration(b)
	d.SetIsDeliveryNotRestricted(true)
	d.SetIsDeliveryNotRestricted(b)
	d.SetIsWebDeliveryAllowed(true)
	d.SetIsWebDeliveryAllowed(b)
	d.SetHasNoRegionalBlackout(true)
	d.SetHasNoRegionalBlackout(b)
	d.SetIsArchiveAllowed(true)
	d.SetIsArchiveAllowed(b)
	vrt.Assert(d.IsEventCanceled() == b && d.HasProgramSegmentation() == b && d.HasDuration() == b && d.IsDeliveryNotRestricted() == b && d.IsWebDeliveryAllowed() == b && d.HasNoRegionalBlackout() == b && d.IsArchiveAllowed() == b, "descriptor flags can be cleared as well as set")
	dur := vrt.Uint64("duration")
	d.SetDuration(gots.PTS(dur))
	vrt.Assert(uint64(d.Duration()) == dur&(1<<40-1), "SetDuration truncates to 40 bits")
	d.SetEventID(ev)
	dev := vrt.Byte("device") & 3
	d.SetDeviceRestrictions(DeviceRestrictions(dev))
	ty := vrt.Byte("type")
	d.SetHasSubSegments(true)
	d.SetTypeID(SegDescType(ty))
	d.SetSegmentNumber(a)
	d.SetSegmentsExpected(e)
	d.SetSubSegmentNumber(e)
	d.SetSubSegmentsExpected(a)
	vrt.Assert(d.EventID() == ev && byte(d.DeviceRestrictions()) == dev && byte(d.TypeID()) == ty && d.SegmentNumber() == a && d.SegmentsExpected() == e && d.SubSegmentNumber() == e && d.SubSegmentsExpected() == a, "descriptor values are reflected")
	vrt.Assert(d.HasSubSegments() == (ty == 0x34 || ty == 0x36), "sub-segments only exist for placement opportunity starts")
	d.SetHasSubSegments(false)
	vrt.Assert(!d.HasSubSegments(), "sub-segment flag can be cleared")
	s.SetDescriptors([]SegmentationDescriptor{d})
	vrt.Assert(len(s.Descriptors()) == 1 && s.Descriptors()[0] == d && d.SCTE35() == s, "SetDescriptors attaches the descriptors to the signal")
	vrt.Reach("end")
}

// splice_time with time_specified_flag = 0 inside a program splice: one byte 0x7F
func VH_C09_UnspecifiedSpliceTime() {
	s := CreateSCTE35()
	in := CreateSpliceInsertCommand()
	ev := vrt.Uint32("event")
	in.SetEventID(ev)
	in.SetHasPTS(false)
	s.SetCommandInfo(in)
	vrt.StubCRC(true)
	got := s.UpdateData()
	vrt.StubCRC(false)
	vrt.Assert(len(got) == 3+11+11+2+4, "length of a timed program splice without specified time")
	vrt.Assert(got[14+5] == 0x4F, "flags: program_splice only, reserved ones")
	vrt.Assert(got[14+6] == 0x7F, "unspecified splice_time is time_specified_flag 0 followed by seven reserved ones")
	vrt.Reach("end")
}

// every setter is reflected by the NEXT encoding: encode, change values through setters (same
// shape, so the section keeps its length), encode again and compare with the reference for the
// new values; the same for a signal obtained by decoding.
func VH_C09_SetThenReencode() {
	cs := c09cmdShapes()
	c := cs[vrt.Choose("command", 0, len(cs)-1)]
	decoded := vrt.Choose("decoded", 0, 1) == 1
	ds := []c08dshape{{program: true, hasDur: true, upidLen: 1}}
	m := c08symSig(0, c, ds)
	m.version, m.alg, m.cwIndex = 0, 0, 0
	var s SCTE35
	if decoded {
		if !(c.kind == 0 || c.kind == 6 || c.cancel || c.program || true) {
			vrt.Assume(false)
		}
		in := c08section(c09canon, m, []byte{})
		var err error
		s, err = NewSCTE35(in)
		vrt.Assert(err == nil && s != nil, "a canonical section decodes")
		if err != nil || s == nil {
			vrt.Reach("end")
			return
		}
	} else {
		s = CreateSCTE35()
		s.SetTier(m.tier)
		s.SetCommandInfo(c09apiCmd(m.cmd, true))
		var descs []SegmentationDescriptor
		for _, w := range m.descs {
			descs = append(descs, c09apiDesc(w))
		}
		s.SetDescriptors(descs)
		s.SetAdjustPTS(gots.PTS((m.cmd.pts + m.adj) & (1<<33 - 1)))
	}
	vrt.StubCRC(true)
	first := s.UpdateData()
	vrt.StubCRC(false)
	want1 := c08section(c09canon, m, []byte{})[1:]
	c08sameBytes(first, want1, "the first encoding is canonical")
	// change values through the setter API
	m2 := m
	m2.tier = vrt.Uint16("tier2") & 0xFFF
	target2 := c08u33("adjusted_pts2")
	s.SetTier(m2.tier)
	s.SetAdjustPTS(gots.PTS(target2))
	m2.adj = (target2 - m.cmd.pts) & (1<<33 - 1)
	d2 := m.descs[0]
	d2.eventID = vrt.Uint32("event2")
	d2.segNum = vrt.Byte("segnum2")
	d2.duration = vrt.Uint64("duration2") & (1<<40 - 1)
	s.Descriptors()[0].SetEventID(d2.eventID)
	s.Descriptors()[0].SetSegmentNumber(d2.segNum)
	s.Descriptors()[0].SetDuration(gots.PTS(d2.duration))
	m2.descs = []c08desc{d2}
	keepData := append([]byte{}, s.Data()...)
	vrt.StubCRC(true)
	second := s.UpdateData()
	vrt.StubCRC(false)
	c08sameBytes(keepData, first, "the raw-data accessor changes only when the signal is re-encoded")
	want2 := c08section(c09canon, m2, []byte{})[1:]
	c08sameBytes(second, want2, "every setter is reflected by the next encoding")
	vrt.Reach("end")
}

// sequences of UPID setter calls before encoding: a descriptor that first held another UPID
// configuration (a MID list or a single UPID) and is then switched must encode exactly its final
// configuration (SetUPIDType clears what does not belong to the new type).
func VH_C09_UPIDSwitch() {
	prelude := vrt.Choose("prelude", 0, 2) // 0: MID with one 2-byte element, 1: single 3-byte UPID, 2: MID with two elements then NotUsed
	final := vrt.Choose("final", 0, 4)     // 0: single UPID empty, 1: single UPID 2 bytes, 2: MID [], 3: MID [1 byte], 4: NotUsed (type 0, empty)
	d := CreateSegmentationDescriptor()
	w := c08symDesc(c08dshape{program: true, upidLen: 0})
	d.SetEventID(w.eventID)
	d.SetHasProgramSegmentation(true)
	d.SetIsWebDeliveryAllowed(w.web)
	d.SetHasNoRegionalBlackout(w.noBlackout)
	d.SetIsArchiveAllowed(w.archive)
	d.SetDeviceRestrictions(DeviceRestrictions(w.device))
	d.SetTypeID(SegDescType(w.typeID))
	d.SetSegmentNumber(w.segNum)
	d.SetSegmentsExpected(w.segExp)
	mkUPID := func(n int) UPID {
		u := CreateUPID()
		u.SetUPIDType(SegUPIDType(vrt.Byte("pre.type")))
		b := make([]byte, n)
		vrt.Bytes("pre.data", b)
		u.SetUPID(b)
		return u
	}
	switch prelude {
	case 0:
		d.SetUPIDType(SegUPIDMID)
		d.SetMID([]UPID{mkUPID(2)})
	case 1:
		d.SetUPIDType(SegUPIDADI)
		b := make([]byte, 3)
		vrt.Bytes("pre.upid", b)
		d.SetUPID(b)
	case 2:
		d.SetUPIDType(SegUPIDMID)
		d.SetMID([]UPID{mkUPID(1), mkUPID(0)})
		d.SetUPIDType(SegUPIDNotUsed)
	}
	switch final {
	case 0, 1:
		w.upidType = vrt.Byte("final.type")
		vrt.Assume(w.upidType != 0x0D && w.upidType != 0x00)
		d.SetUPIDType(SegUPIDType(w.upidType))
		w.upid = make([]byte, final*2)
		vrt.Bytes("final.upid", w.upid)
		d.SetUPID(w.upid)
	case 2, 3:
		w.isMID, w.upidType, w.upid = true, 0x0D, nil
		d.SetUPIDType(SegUPIDMID)
		var mid []UPID
		if final == 3 {
			u := c08upid{typ: vrt.Byte("final.mid.type"), data: make([]byte, 1)}
			vrt.Bytes("final.mid.data", u.data)
			w.mid = []c08upid{u}
			e := CreateUPID()
			e.SetUPIDType(SegUPIDType(u.typ))
			e.SetUPID(u.data)
			mid = append(mid, e)
		}
		d.SetMID(mid)
	case 4:
		w.upidType, w.upid = 0, nil
		d.SetUPIDType(SegUPIDNotUsed)
	}
	if prelude == 1 && (final == 0 || final == 4) {
		// switching the type keeps a previously set single UPID unless the new type is MID or
		// NotUsed; SetUPID(empty) then clears it. Both orders end with an empty UPID here.
		if final == 0 {
			d.SetUPID(nil)
		}
	}
	got := d.Data()
	want := c08descBytes(c09canon, w)
	c08sameBytes(got, want, "the descriptor encodes exactly its final UPID configuration, whatever was set before")
	vrt.Assert(byte(d.UPIDType()) == w.upidType, "UPIDType getter reflects the last SetUPIDType")
	vrt.Assert(len(d.MID()) == len(w.mid), "MID getter reflects the final configuration")
	vrt.Assert(len(d.UPID()) == len(w.upid), "UPID getter reflects the final configuration")
	vrt.Reach("end")
}

// Any sequence of setter calls before encoding: a descriptor that already holds one logical value
// (rich shapes A: every optional part present) is brought to another one (every API shape B) by
// the calls a user has to make; the encoding and the getters must be those of B alone.
func VH_C09_DescSwitch() {
	as := []c08dshape{
		{ncomp: 2, hasDur: true, upidLen: 2, sub: 0x34},
		{program: true, hasDur: true, dnr: true, isMID: true, mid: []int{1, 0}, sub: 0x36},
		{cancel: true},
	}
	bs := c09apiDescShapes()
	ai := vrt.Choose("from", 0, len(as)-1)
	b := bs[vrt.Choose("to", 0, len(bs)-1)]
	wa := c08symDesc(as[ai])
	d := CreateSegmentationDescriptor()
	c09applyDesc(d, wa, nil)
	c08sameBytes(d.Data(), c08descBytes(c09canon, wa), "the first value encodes canonically")
	wb := c08symDesc(b)
	if as[ai].cancel {
		// nothing but the event id was ever set: the second value has to be set completely
		c09applyDesc(d, wb, nil)
	} else {
		c09applyDesc(d, wb, &wa)
	}
	c08sameBytes(d.Data(), c08descBytes(c09canon, wb), "after further setter calls the descriptor encodes exactly its current logical value")
	vrt.Assert(d.EventID() == wb.eventID && d.IsEventCanceled() == wb.cancel, "getters reflect the current value (event id, cancel)")
	if !wb.cancel {
		vrt.Assert(d.HasDuration() == wb.hasDur && d.HasProgramSegmentation() == wb.program && byte(d.UPIDType()) == wb.upidType, "getters reflect the current value (flags, UPID type)")
		vrt.Assert(len(d.MID()) == len(wb.mid) && len(d.UPID()) == len(wb.upid), "getters reflect the current value (UPID/MID lengths)")
		if !wb.program {
			vrt.Assert(len(d.Components()) == len(wb.offsets), "getters reflect the current value (components)")
		}
	}
	vrt.Reach("end")
}

// the same for splice commands: a splice_insert (or time_signal) that already holds one value is
// brought to another shape; its bytes must be those of the current value alone.
func VH_C09_CmdSwitch() {
	as := []c08cshape{
		{kind: 5, program: true, hasDur: true},
		{kind: 5, immediate: true, hasDur: true, comps: []bool{}},
		{kind: 5, cancel: true},
	}
	var bs []c08cshape
	for _, b := range c09cmdShapes() {
		if b.kind == 5 {
			bs = append(bs, b)
		}
	}
	ai := vrt.Choose("from", 0, len(as)-1)
	b := bs[vrt.Choose("to", 0, len(bs)-1)]
	ca := c08symCmd(as[ai])
	in := CreateSpliceInsertCommand()
	c09applyInsert(in, ca, true, false)
	c08sameBytes(in.Data(), c08cmdBytes(c09canon, ca), "the first value encodes canonically")
	cb := c08symCmd(b)
	c09applyInsert(in, cb, true, !as[ai].cancel)
	c08sameBytes(in.Data(), c08cmdBytes(c09canon, cb), "after further setter calls the command encodes exactly its current logical value")
	vrt.Assert(in.EventID() == cb.eventID && in.IsEventCanceled() == cb.cancel, "getters reflect the current value (event id, cancel)")
	if !cb.cancel {
		vrt.Assert(in.IsOut() == cb.out && in.IsProgramSplice() == cb.program && in.HasDuration() == cb.hasDur && in.SpliceImmediate() == cb.immediate, "getters reflect the current flags")
		vrt.Assert(in.UniqueProgramId() == cb.uniqueID && in.AvailNum() == cb.availNum && in.AvailsExpected() == cb.availsExp, "getters reflect the current ids")
	}
	// time_signal: specified -> unspecified -> specified with another time
	t := CreateTimeSignalCommand()
	p1, p2 := c08u33("ts.pts1"), c08u33("ts.pts2")
	t.SetHasPTS(true)
	t.SetPTS(gots.PTS(p1))
	c08sameBytes(t.Data(), c08spliceTime(c09canon, true, p1), "time_signal with a time")
	t.SetHasPTS(false)
	c08sameBytes(t.Data(), c08spliceTime(c09canon, false, 0), "time_signal after clearing the time: one byte, flag 0")
	vrt.Assert(!t.HasPTS(), "HasPTS reflects the cleared flag")
	t.SetHasPTS(true)
	t.SetPTS(gots.PTS(p2))
	c08sameBytes(t.Data(), c08spliceTime(c09canon, true, p2), "time_signal with a new time")
	vrt.Reach("end")
}
