package scte35

import (
	"github.com/Comcast/gots/v2"
	"github.com/Comcast/gots/v2/zzverif/vrt"
)

// C10 — state tracker bookkeeping for every bounded history, checked with ghost state kept by
// the harness from return values only.
//
// Known finding C10-F1 (D13): the tracker's blackout index goes stale when a pending
// ProgramBreakaway leaves the open stack other than through a ProgramResumption (returned in a
// closed list by ProcessDescriptor or Close), or when Close removes a descriptor while a
// breakaway is pending. From then on Open() can panic, hide the wrong descriptor or show
// descriptors that were already reported closed/discarded. The ghost flag `perturbed` is that
// history predicate; assertions evaluated while it holds are attributed to C10-F1.

type c10d struct {
	d      SegmentationDescriptor
	typ    byte
	hasPTS bool
}

// 0x22 (break start): an out type that a program resumption cannot close (seeded mutant s44)
var c10small = []byte{0x10, 0x11, 0x13, 0x14, 0x22, 0x30, 0x31, 0x34, 0x35, 0x40, 0x51}
var c10wide = []byte{0x10, 0x11, 0x13, 0x14, 0x22, 0x30, 0x31, 0x34, 0x35, 0x40, 0x51, 0x17, 0x19, 0x20, 0x21, 0x23, 0x24, 0x36, 0x37, 0x3C, 0x41, 0x44, 0x45, 0x50}

func c10new(typ byte) c10d {
	s := CreateSCTE35()
	cmd := CreateTimeSignalCommand()
	s.SetCommandInfo(cmd)
	has := vrt.Bool("haspts")
	cmd.SetHasPTS(has)
	pts := vrt.Uint64("pts")
	vrt.Assume(pts < 1<<33)
	s.SetPTS(gots.PTS(pts))
	d := CreateSegmentationDescriptor()
	d.SetTypeID(SegDescType(typ))
	d.SetEventID(vrt.Uint32("event"))
	d.SetSegmentNumber(vrt.Byte("seg"))
	d.SetSegmentsExpected(vrt.Byte("exp"))
	s.SetDescriptors([]SegmentationDescriptor{d})
	return c10d{d: d, typ: typ, hasPTS: has}
}

func c10opens(t byte) bool { return c19isOut(t) || t == 0x13 }

type c10ghost struct {
	lastAccepted bool                     // the previous call was a ProcessDescriptor that got past the duplicate/VSS/no-PTS rejections
	all          []c10d                   // every descriptor ever passed to ProcessDescriptor
	open         []SegmentationDescriptor // accepted as out type / breakaway, not yet reported closed or discarded
	openTyp      []byte
	gone         []SegmentationDescriptor // reported closed or discarded
	perturbed    bool                     // history predicate of known finding C10-F1
	inBlackout   bool                     // a breakaway was accepted and no resumption since
}

func c10index(list []SegmentationDescriptor, d SegmentationDescriptor) int {
	for i, x := range list {
		if x == d {
			return i
		}
	}
	return -1
}

func (g *c10ghost) pendingBreakaway() int {
	for i := len(g.open) - 1; i >= 0; i-- {
		if g.openTyp[i] == 0x13 {
			return i
		}
	}
	return -1
}

func (g *c10ghost) remove(i int) {
	g.gone = append(g.gone, g.open[i])
	g.open = append(append([]SegmentationDescriptor{}, g.open[:i]...), g.open[i+1:]...)
	g.openTyp = append(append([]byte{}, g.openTyp[:i]...), g.openTyp[i+1:]...)
}

// checkOpen: Open() is a duplicate-free subsequence of the ghost open list (so it holds no
// unprocessed, closed or discarded descriptor and keeps the opening order).
func (g *c10ghost) checkOpen(st State, where string) []SegmentationDescriptor {
	vrt.PanicKnown("C10-F1", g.perturbed)
	o := st.Open()
	vrt.PanicKnown("", false)
	pos := -1
	for _, d := range o {
		i := c10index(g.open, d)
		vrt.AssertKnown(i >= 0, "C10-F1", g.perturbed, "Open() lists only descriptors that were processed, accepted as open and not yet reported closed or discarded")
		vrt.AssertKnown(i > pos, "C10-F1", g.perturbed, "Open() keeps the opening order and lists no descriptor twice")
		if i > pos {
			pos = i
		}
	}
	return o
}

func c10sameList(a, b []SegmentationDescriptor) bool {
	if len(a) != len(b) {
		return false
	}
	for i := range a {
		if a[i] != b[i] {
			return false
		}
	}
	return true
}

func (g *c10ghost) process(st State, x c10d, repeatOfLast bool) {
	before := g.checkOpen(st, "before")
	wasPerturbed := g.perturbed
	vrt.PanicKnown("C10-F1", g.perturbed)
	closed, err := st.ProcessDescriptor(x.d)
	vrt.PanicKnown("", false)
	if c10index(c10descs(g.all), x.d) < 0 {
		g.all = append(g.all, x)
	}
	repeatOfLast = repeatOfLast && g.lastAccepted
	g.lastAccepted = false
	if !x.hasPTS {
		vrt.Assert(err != nil && len(closed) == 0, "a descriptor whose signal carries no PTS is rejected")
		after := g.checkOpen(st, "after no-PTS")
		vrt.AssertKnown(c10sameList(before, after), "C10-F1", wasPerturbed, "a rejected no-PTS descriptor does not change the open list")
		return
	}
	if repeatOfLast {
		vrt.Assert(err == gots.ErrSCTE35DuplicateDescriptor && len(closed) == 0, "processing the same descriptor twice in a row is rejected as a duplicate")
		after := g.checkOpen(st, "after duplicate")
		vrt.AssertKnown(c10sameList(before, after), "C10-F1", wasPerturbed, "a duplicate does not change the open list")
		return
	}
	if err == gots.ErrSCTE35DuplicateDescriptor || err == gots.ErrVSSSignalIdNotFound {
		// rejected before any bookkeeping: nothing closed, nothing opened
		vrt.Assert(len(closed) == 0, "a rejected descriptor closes nothing")
		after := g.checkOpen(st, "after rejection")
		vrt.AssertKnown(c10sameList(before, after), "C10-F1", wasPerturbed, "a rejected descriptor does not change the open list")
		return
	}
	g.lastAccepted = true
	// closed descriptors: were open, returned once, closable, last-opened first
	last := len(g.open)
	for _, c := range closed {
		i := c10index(g.open, c)
		vrt.AssertKnown(i >= 0, "C10-F1", wasPerturbed, "every descriptor returned as closed was open immediately before the call and had not been reported before")
		vrt.AssertKnown(x.d.CanClose(c), "C10-F1", wasPerturbed, "every closed descriptor is closable by the incoming descriptor under the closing rules")
		vrt.AssertKnown(i < last, "C10-F1", wasPerturbed, "closed lists are ordered last-opened first")
		if i >= 0 && i < last {
			last = i
		}
	}
	for _, c := range closed {
		if i := c10index(g.open, c); i >= 0 {
			if g.openTyp[i] == 0x13 {
				g.perturbed = true // a breakaway left the stack through a closed list
			}
			g.remove(i)
		}
	}
	// bookkeeping of the incoming descriptor
	// A resumption discards (from the most recent pending breakaway upwards) only while a blackout
	// is in progress, i.e. a breakaway was accepted and no resumption since. A second resumption
	// without a new breakaway discards nothing, even if an older breakaway is still open (history
	// breakaway, breakaway, resumption, resumption): the statement does not ask for more, and the
	// first version of this model, which discarded whenever any breakaway was ghost-open, raised a
	// false alarm on that history in the thorough tier (DESIGN.md 8, false alarms).
	if x.typ == 0x14 {
		if g.inBlackout {
			if b := g.pendingBreakaway(); b >= 0 {
				for len(g.open) > b {
					g.remove(len(g.open) - 1)
				}
			}
		}
		g.inBlackout = false
	}
	if x.typ == 0x13 {
		g.inBlackout = true
	}
	if c10opens(x.typ) {
		if c10index(g.open, x.d) < 0 && c10index(g.gone, x.d) < 0 {
			g.open = append(g.open, x.d)
			g.openTyp = append(g.openTyp, x.typ)
		}
	}
	g.checkOpen(st, "after process")
}

func c10descs(l []c10d) []SegmentationDescriptor {
	var out []SegmentationDescriptor
	for _, x := range l {
		out = append(out, x.d)
	}
	return out
}

func (g *c10ghost) close(st State, x c10d) {
	g.lastAccepted = false
	g.checkOpen(st, "before close")
	wasPerturbed := g.perturbed
	vrt.PanicKnown("C10-F1", g.perturbed)
	closed, err := st.Close(x.d)
	vrt.PanicKnown("", false)
	if err != nil {
		vrt.Assert(len(closed) == 0 && err == gots.ErrSCTE35DescriptorNotFound, "Close of a descriptor that is not open reports not-found")
	} else {
		vrt.Assert(len(closed) == 1, "an explicit close returns the one descriptor it closed")
		for _, c := range closed {
			i := c10index(g.open, c)
			vrt.AssertKnown(i >= 0, "C10-F1", wasPerturbed, "the explicitly closed descriptor was open immediately before the call")
			vrt.Assert(x.d.Equal(c), "the explicitly closed descriptor is equal to the one asked for")
			if i >= 0 {
				if g.pendingBreakaway() >= 0 {
					g.perturbed = true // Close while a breakaway is pending shifts the stack under the blackout index
				}
				g.remove(i)
			}
		}
	}
	g.checkOpen(st, "after close")
}

func c10run(k int, alpha []byte) {
	c10runFrom(NewState(), &c10ghost{}, -1, k, alpha)
}

func c10runFrom(st State, g *c10ghost, lastProcessed int, k int, alpha []byte) {
	for step := 0; step < k; step++ {
		n := len(g.all)
		// 0..len(alpha)-1: process a fresh descriptor of that type; then re-process / close an earlier one
		op := vrt.Choose("op", 0, len(alpha)+2*n-1)
		switch {
		case op < len(alpha):
			x := c10new(alpha[op])
			g.process(st, x, false)
			lastProcessed = len(g.all) - 1
		case op < len(alpha)+n:
			j := op - len(alpha)
			g.process(st, g.all[j], j == lastProcessed)
			lastProcessed = j
		default:
			j := op - len(alpha) - n
			g.close(st, g.all[j])
			lastProcessed = -1
		}
	}
	vrt.Reach("end")
}

// histories inside a blackout: a program start and a breakaway first, then 2 (thorough: 3) free
// calls over the types that matter there (resumption, out types a resumption can and cannot
// close, their ends, a type that closes the breakaway itself)
func VH_C10_Blackout() {
	st := NewState()
	g := &c10ghost{}
	a := c10new(0x10)
	vrt.Assume(a.hasPTS)
	g.process(st, a, false)
	b := c10new(0x13)
	vrt.Assume(b.hasPTS)
	g.process(st, b, false)
	// some continuations (e.g. 0x40 closing the breakaway, then touching the stale index) end in the
	// listed known panic C10-F1 on every path: the witness tag is placed before them
	vrt.Reach("in blackout")
	k := 2
	if vrt.Tier() == 1 {
		k = 3
	}
	c10runFrom(st, g, 1, k, []byte{0x14, 0x22, 0x23, 0x24, 0x30, 0x34, 0x35, 0x3C, 0x40, 0x44})
}

// all histories of 3 calls over an 11-type alphabet (both tiers)
func VH_C10_Histories() {
	c10run(3, c10small)
}

// deeper histories over the 7 types that drive the tracker's special cases (program start/end,
// breakaway/resumption, an out type a resumption cannot close, chapter start/end): 4 calls in the
// thorough tier (9k jobs), 2 in the quick tier. (4 calls over all 11 types = 36k jobs ran at
// 11 jobs/s: about an hour, not kept.)
var c10core = []byte{0x10, 0x11, 0x13, 0x14, 0x22, 0x30, 0x31}

func VH_C10_Deep() {
	if vrt.Tier() == 0 {
		c10run(2, c10core)
	} else {
		c10run(4, c10core)
	}
}

// thorough only: histories of 3 calls over a 24-type alphabet; quick: 2 calls
func VH_C10_Wide() {
	if vrt.Tier() == 0 {
		c10run(2, c10wide)
	} else {
		c10run(3, c10wide)
	}
}

// two calls with the type ids fully symbolic (all 256 values each; quick: the first one only)
func VH_C10_AnyTypes() {
	st := NewState()
	g := &c10ghost{}
	t1, t2 := vrt.Byte("type1"), vrt.Byte("type2")
	a := c10new(0x10)
	a.d.SetTypeID(SegDescType(t1))
	a.typ = t1
	b := c10new(0x10)
	b.d.SetTypeID(SegDescType(t2))
	b.typ = t2
	g.process(st, a, false)
	if vrt.Tier() == 1 {
		g.process(st, b, false)
	} else {
		// quick: the second descriptor is a concrete ProgramEnd
		c := c10new(0x11)
		g.process(st, c, false)
	}
	vrt.Reach("end")
}

// a shortest witness of the known finding: Process(breakaway); Close(it); Open()
func VH_C10_KnownWitness() {
	st := NewState()
	g := &c10ghost{}
	x := c10new(0x13)
	vrt.Assume(x.hasPTS)
	g.process(st, x, false)
	vrt.Reach("end") // the path ends in the known panic of Open() below
	g.close(st, x)
}
