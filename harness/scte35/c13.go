package scte35

import (
	"github.com/Comcast/gots/v2"
	"github.com/Comcast/gots/v2/zzverif/vrt"
)

// C13, emitter clause for splice_info_sections: the last four bytes of every section produced by
// UpdateData() are the checksum function applied to ALL preceding bytes of that section (alignment
// stuffing included) and section_length covers exactly the emitted bytes. gots.ComputeCRC is an
// uninterpreted function here (vrt.StubCRC); that it is CRC-32/MPEG-2 and that appending it gives
// residue zero are the root-package C13 lemmas, so the two together give "CRC-valid".
func c13checkEmitted(got []byte) {
	n := len(got)
	vrt.Assert(n >= 7, "an emitted section has at least a header and a CRC")
	if n < 7 {
		return
	}
	vrt.Assert(int(got[1]&0x0F)<<8|int(got[2]) == n-3, "section_length covers exactly the emitted bytes after it")
	u := vrt.UF32("crc", got[:n-4])
	ok := got[n-4] == byte(u>>24) && got[n-3] == byte(u>>16) && got[n-2] == byte(u>>8) && got[n-1] == byte(u)
	vrt.Assert(ok, "CRC_32 of an emitted splice_info_section is the checksum of all its preceding bytes")
}

func VH_C13_EmitSCTE35() {
	cs := c09cmdShapes()
	c := cs[vrt.Choose("command", 0, len(cs)-1)]
	stuffing := vrt.Choose("stuffing", 0, 3)
	nd := vrt.Choose("descriptors", 0, 2)
	ds := []c08dshape{{program: true, hasDur: true, upidLen: 1}, {cancel: true}}[:nd]
	m := c08symSig(0, c, ds)
	s := CreateSCTE35()
	s.SetTier(vrt.Uint16("tier"))
	s.SetCommandInfo(c09apiCmd(m.cmd, true))
	var descs []SegmentationDescriptor
	for _, w := range m.descs {
		descs = append(descs, c09apiDesc(w))
	}
	s.SetDescriptors(descs)
	s.SetAlignmentStuffing(uint(stuffing))
	s.SetAdjustPTS(gots.PTS(c08u33("adjusted_pts")))
	vrt.StubCRC(true)
	got := s.UpdateData()
	vrt.StubCRC(false)
	c13checkEmitted(got)
	// change something and emit again
	s.SetTier(vrt.Uint16("tier2"))
	s.SetAlignmentStuffing(uint(3 - stuffing))
	vrt.StubCRC(true)
	got2 := s.UpdateData()
	vrt.StubCRC(false)
	c13checkEmitted(got2)
	vrt.Reach("end")
}

// decoded sections (arbitrary reserved bits, foreign descriptors) re-emitted
func VH_C13_ReemitSCTE35() {
	cs := c08cmdShapes()
	c := cs[vrt.Choose("command", 0, len(cs)-1)]
	d := []c08dshape{{program: true, upidLen: 2}, {foreign: true, flen: 3}, {ncomp: 2, hasDur: true, isMID: true, mid: []int{1}}}[vrt.Choose("descriptor", 0, 2)]
	m := c08symSig(0, c, []c08dshape{d})
	crc := make([]byte, 4)
	vrt.Bytes("crc.in", crc)
	in := c08section(c08rsv{symbolic: true}, m, crc)
	s, err := NewSCTE35(in)
	if err != nil || s == nil {
		vrt.Reach("end")
		return
	}
	s.SetAlignmentStuffing(uint(vrt.Choose("stuffing", 0, 2)))
	vrt.StubCRC(true)
	got := s.UpdateData()
	vrt.StubCRC(false)
	c13checkEmitted(got)
	vrt.Reach("end")
}

// one fully concrete signal through the real checksum function: residue zero
func VH_C13_EmitConcrete() {
	s := CreateSCTE35()
	s.SetTier(0x123)
	in := CreateSpliceInsertCommand()
	in.SetEventID(0x4000ABCD)
	in.SetIsOut(true)
	in.SetIsProgramSplice(true)
	in.SetHasPTS(true)
	in.SetPTS(0x1ABCDEF01)
	in.SetHasDuration(true)
	in.SetDuration(2700000)
	s.SetCommandInfo(in)
	d := CreateSegmentationDescriptor()
	d.SetEventID(7)
	d.SetHasProgramSegmentation(true)
	d.SetUPIDType(SegUPIDADI)
	d.SetUPID([]byte("SIGNAL:x"))
	d.SetTypeID(0x34)
	d.SetHasSubSegments(true)
	s.SetDescriptors([]SegmentationDescriptor{d})
	s.SetAlignmentStuffing(uint(vrt.Choose("stuffing", 0, 3)))
	got := s.UpdateData()
	r := gots.ComputeCRC(got)
	vrt.Assert(len(r) == 4 && r[0] == 0 && r[1] == 0 && r[2] == 0 && r[3] == 0, "the checksum over a whole emitted section (real CRC) is zero")
	vrt.Reach("end")
}
