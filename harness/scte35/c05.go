package scte35

import "github.com/Comcast/gots/v2/zzverif/vrt"

func c05n() int {
	if vrt.Tier() == 0 {
		return 17
	}
	return 19 // 24 was planned; 13+ symbolic body bytes already took 8 GB per worker
}

func c05body() int {
	if vrt.Tier() == 0 {
		return 11
	}
	return 12
}

// C05 — NewSCTE35 is total on every byte string up to the bound (structure symbolic too) and any
// object it returns survives all getters, String() and re-encoding.
func VH_C05_SCTE35() {
	vrt.SetUnwind(200, true)
	n := vrt.Choose("len", 0, c05n())
	b := make([]byte, n)
	vrt.Bytes("b", b)
	keep := append([]byte{}, b...)
	if n == 0 {
		vrt.Reach("end")
		return
	}
	s, err := NewSCTE35(b)
	if err == nil && s != nil {
		_ = s.HasPTS()
		_ = s.PTS()
		_ = s.Tier()
		_ = s.Command()
		_ = s.CommandInfo()
		_ = s.AlignmentStuffing()
		_ = s.Data()
		for _, d := range s.Descriptors() {
			_ = d.EventID()
			_ = d.TypeID()
			_ = d.IsOut()
			_ = d.IsIn()
			_ = d.UPID()
			_ = d.MID()
			_ = d.Components()
			_, _ = d.StreamSwitchSignalId()
			_ = d.Data()
		}
		_ = s.UpdateData()
	}
	for i := range b {
		vrt.Assert(b[i] == keep[i], "the parser never modifies its input")
	}
	vrt.Reach("end")
}

// sections whose fixed part is well-formed (table id, no encryption, supported command) so that
// the command and descriptor parsers are reached with arbitrary bytes
func VH_C05_SCTE35Body() {
	vrt.SetUnwind(200, true)
	cmd := []byte{0, 5, 6}[vrt.Choose("command", 0, 2)]
	n := vrt.Choose("bodyLen", 0, c05body())
	body := make([]byte, n)
	vrt.Bytes("body", body)
	b := []byte{0, 0xFC, 0x30, byte(11 + n), 0, vrt.Byte("enc") & 0x7F, 0, 0, 0, 0, 0, 0xFF, 0xF0, 0, cmd}
	b = append(b, body...)
	keep := append([]byte{}, b...)
	s, err := NewSCTE35(b)
	if err == nil && s != nil {
		for _, d := range s.Descriptors() {
			_ = d.MID()
			_ = d.Components()
			_ = d.Data()
		}
		_ = s.UpdateData()
		_ = s.String()
	}
	for i := range b {
		vrt.Assert(b[i] == keep[i], "the parser never modifies its input")
	}
	vrt.Reach("end")
}

func c05desc() int {
	if vrt.Tier() == 0 {
		return 20
	}
	return 24
}

// one segmentation descriptor with arbitrary body bytes behind a well-formed section and
// descriptor-loop frame (lengths consistent), so that the descriptor parser's inner length
// arithmetic (component count, UPID and MID lengths, sub-segment bytes) is reached with every
// combination of its length fields
func VH_C05_SegDesc() {
	vrt.SetUnwind(300, true)
	n := vrt.Choose("descLen", 0, c05desc())
	body := make([]byte, n)
	vrt.Bytes("desc", body)
	b := []byte{0, 0xFC, 0x30, byte(11 + 2 + 2 + n + 4), 0, vrt.Byte("enc") & 0x7F, 0, 0, 0, 0, 0, 0xFF, 0xF0, 0, 0}
	b = append(b, byte((n+2)>>8), byte(n+2), 0x02, byte(n))
	b = append(b, body...)
	crc := make([]byte, 4)
	vrt.Bytes("crc", crc)
	b = append(b, crc...)
	keep := append([]byte{}, b...)
	s, err := NewSCTE35(b)
	if err == nil && s != nil {
		for _, d := range s.Descriptors() {
			_ = d.UPID()
			_ = d.MID()
			_ = d.Components()
			_, _ = d.StreamSwitchSignalId()
			_ = d.Data()
		}
		_ = s.UpdateData()
	}
	for i := range b {
		vrt.Assert(b[i] == keep[i], "the parser never modifies its input")
	}
	vrt.Reach("end")
}
