package ebp

import "github.com/Comcast/gots/v2/zzverif/vrt"

func c05n() int {
	if vrt.Tier() == 0 {
		return 20
	}
	return 32
}

// C05 — ReadEncoderBoundaryPoint and the getters of its result are total on every byte string up to the bound
func VH_C05_EBP() {
	vrt.SetUnwind(600, true)
	n := vrt.Choose("len", 0, c05n())
	flavour := vrt.Choose("tag", 0, 2) // 0: symbolic tag, 1: Comcast, 2: CableLabs
	b := make([]byte, n)
	vrt.Bytes("b", b)
	if n > 0 {
		if flavour == 1 {
			b[0] = 0xA9
		} else if flavour == 2 {
			b[0] = 0xDF
		}
	}
	keep := append([]byte{}, b...)
	e, err := ReadEncoderBoundaryPoint(b)
	if err == nil && e != nil {
		_ = e.SegmentFlag()
		_ = e.FragmentFlag()
		_ = e.TimeFlag()
		_ = e.GroupingFlag()
		_ = e.SapFlag()
		_ = e.Sap()
		_ = e.ExtensionFlag()
		_ = e.EBPType()
		_ = e.IsEmpty()
		_ = e.StreamSyncSignal()
		_ = e.EBPTime()
		_ = e.EBPSuccessReadTime()
		_ = e.Data()
	}
	for i := range b {
		vrt.Assert(b[i] == keep[i], "the parser never modifies its input")
	}
	vrt.Reach("end")
}
