package ebp

import (
	"time"

	"github.com/Comcast/gots/v2/zzverif/vrt"
)

// C12 — EBP codec. Reference builder for both flavours; structural flag bits (extension 0x01,
// SAP 0x20, grouping 0x10, time 0x08) enumerated, every other bit and value symbolic.

type c12ref struct {
	flags, ext, sap byte
	groups          []byte // 7-bit ids for CableLabs, one raw byte for Comcast
	sec, frac       uint32
	partition       byte
	reserved        []byte
	hasPartition    bool
}

func c12structural(k int) byte {
	var f byte
	if k&1 != 0 {
		f |= 0x01
	}
	if k&2 != 0 {
		f |= 0x20
	}
	if k&4 != 0 {
		f |= 0x10
	}
	if k&8 != 0 {
		f |= 0x08
	}
	return f
}

func c12be32(b []byte) uint32 {
	return uint32(b[0])<<24 | uint32(b[1])<<16 | uint32(b[2])<<8 | uint32(b[3])
}

// c12comcast builds 0xA9 | len | flags | [ext] | [sap] | [group] | [sec frac] | reserved*
func c12comcast(k, nres int) ([]byte, c12ref) {
	var r c12ref
	free := vrt.Byte("flagbits")
	r.flags = c12structural(k) | free&0xC6
	body := []byte{r.flags}
	if r.flags&0x01 != 0 {
		r.ext = vrt.Byte("ext")
		body = append(body, r.ext)
	}
	if r.flags&0x20 != 0 {
		r.sap = vrt.Byte("sap")
		body = append(body, r.sap)
	}
	if r.flags&0x10 != 0 {
		g := vrt.Byte("group")
		r.groups = []byte{g}
		body = append(body, g)
	}
	if r.flags&0x08 != 0 {
		t := make([]byte, 8)
		vrt.Bytes("time", t)
		r.sec, r.frac = c12be32(t[0:4]), c12be32(t[4:8])
		body = append(body, t...)
	}
	r.reserved = make([]byte, nres)
	vrt.Bytes("reserved", r.reserved)
	body = append(body, r.reserved...)
	return append([]byte{0xA9, byte(len(body))}, body...), r
}

// c12cablelabs builds 0xDF | len | "EBP0" | flags | [ext] | [sap] | [{ext_bit|id}+] | [sec frac] | [partition if ext&0x80] | reserved*
func c12cablelabs(k, ngroups, nres int, partition bool) ([]byte, c12ref) {
	var r c12ref
	free := vrt.Byte("flagbits")
	r.flags = c12structural(k) | free&0xC6
	body := []byte{0x45, 0x42, 0x50, 0x30, r.flags}
	if r.flags&0x01 != 0 {
		r.ext = vrt.Byte("ext") & 0x7F
		if partition {
			r.ext |= 0x80
		}
		body = append(body, r.ext)
	}
	if r.flags&0x20 != 0 {
		r.sap = vrt.Byte("sap")
		body = append(body, r.sap)
	}
	if r.flags&0x10 != 0 {
		for i := 0; i < ngroups; i++ {
			g := vrt.Byte("group") & 0x7F
			r.groups = append(r.groups, g)
			if i < ngroups-1 {
				body = append(body, g|0x80)
			} else {
				body = append(body, g)
			}
		}
	}
	if r.flags&0x08 != 0 {
		t := make([]byte, 8)
		vrt.Bytes("time", t)
		r.sec, r.frac = c12be32(t[0:4]), c12be32(t[4:8])
		body = append(body, t...)
	}
	if r.flags&0x01 != 0 && partition {
		r.hasPartition = true
		r.partition = vrt.Byte("partition")
		body = append(body, r.partition)
	}
	r.reserved = make([]byte, nres)
	vrt.Bytes("reserved", r.reserved)
	body = append(body, r.reserved...)
	return append([]byte{0xDF, byte(len(body))}, body...), r
}

func c12sync(groups []byte) byte {
	for _, g := range groups {
		if g == 0x1C || g == 0x1D {
			return g
		}
	}
	return 0xFF
}

func c12common(e EncoderBoundaryPoint, r c12ref, tag byte) {
	vrt.Assert(e.EBPType() == tag, "EBP type")
	vrt.Assert(!e.IsEmpty(), "not empty")
	vrt.Assert(e.FragmentFlag() == (r.flags&0x80 != 0), "fragment flag")
	vrt.Assert(e.SegmentFlag() == (r.flags&0x40 != 0), "segment flag")
	vrt.Assert(e.SapFlag() == (r.flags&0x20 != 0), "SAP flag")
	vrt.Assert(e.GroupingFlag() == (r.flags&0x10 != 0), "grouping flag")
	vrt.Assert(e.TimeFlag() == (r.flags&0x08 != 0), "time flag")
	vrt.Assert(e.ExtensionFlag() == (r.flags&0x01 != 0), "extension flag")
	if r.flags&0x20 != 0 {
		vrt.Assert(e.Sap() == r.sap, "SAP type")
	}
	vrt.Assert(e.StreamSyncSignal() == c12sync(r.groups), "stream-sync signal = first grouping id equal to 0x1C/0x1D, else 0xFF")
}

func c12same(a, b []byte, msg string) {
	vrt.Assert(len(a) == len(b), msg)
	for i := 0; i < len(a) && i < len(b); i++ {
		vrt.Assert(a[i] == b[i], msg)
	}
}

func VH_C12_ComcastDecode() {
	k := vrt.Choose("flags", 0, 15)
	nres := vrt.Choose("reserved", 0, 2)
	in, r := c12comcast(k, nres)
	keep := append([]byte{}, in...)
	e, err := ReadEncoderBoundaryPoint(in)
	vrt.Assert(err == nil && e != nil, "a well-formed Comcast EBP decodes")
	c12common(e, r, 0xA9)
	c := e.(*comcastEbp)
	vrt.Assert(c.DiscontinuityFlag() == (r.flags&0x04 != 0), "discontinuity flag")
	if r.flags&0x01 != 0 {
		vrt.Assert(c.ExtensionFlags == r.ext, "extension byte")
	}
	if r.flags&0x10 != 0 {
		vrt.Assert(len(c.Grouping) == 1 && c.Grouping[0] == r.groups[0], "grouping id")
	}
	if r.flags&0x08 != 0 {
		vrt.Assert(c.TimeSeconds == r.sec && c.TimeFraction == r.frac, "NTP seconds and fraction")
	}
	c12same(c.ReservedBytes, r.reserved, "trailing reserved bytes")
	c12same(in, keep, "decoding does not modify the input")
	c12same(e.Data(), keep, "re-encoding the decoded object reproduces the input bytes")
	vrt.Reach("end")
}

func VH_C12_CableLabsDecode() {
	k := vrt.Choose("flags", 0, 15)
	ng := 1
	if k&4 != 0 {
		if vrt.Tier() == 0 {
			ng = vrt.Choose("groups", 1, 3)
		} else {
			ng = vrt.Choose("groups", 1, 5)
		}
	}
	part := false
	if k&1 != 0 {
		part = vrt.Choose("partition", 0, 1) == 1
	}
	nres := vrt.Choose("reserved", 0, 2)
	in, r := c12cablelabs(k, ng, nres, part)
	keep := append([]byte{}, in...)
	e, err := ReadEncoderBoundaryPoint(in)
	vrt.Assert(err == nil && e != nil, "a well-formed CableLabs EBP decodes")
	c12common(e, r, 0xDF)
	c := e.(*cableLabsEbp)
	vrt.Assert(c.FormatIdentifier == 0x45425030, "format identifier EBP0")
	vrt.Assert(c.ConcealmentFlag() == (r.flags&0x04 != 0), "concealment flag")
	vrt.Assert(c.PartitionFlag() == r.hasPartition, "partition flag")
	if r.hasPartition {
		vrt.Assert(c.PartitionFlags == r.partition, "partition byte")
	}
	if r.flags&0x10 != 0 {
		vrt.Assert(len(c.Grouping) == len(r.groups), "length of the grouping chain")
		for i := 0; i < len(r.groups) && i < len(c.Grouping); i++ {
			vrt.Assert(c.Grouping[i] == r.groups[i], "7-bit grouping ids in order")
		}
	}
	if r.flags&0x08 != 0 {
		vrt.Assert(c.TimeSeconds == r.sec && c.TimeFraction == r.frac, "NTP seconds and fraction")
	}
	c12same(c.ReservedBytes, r.reserved, "trailing reserved bytes")
	c12same(e.Data(), keep, "re-encoding the decoded object reproduces the input bytes")
	vrt.Reach("end")
}

var (
	c12era1900 = time.Date(1900, 1, 1, 0, 0, 0, 0, time.UTC)
	c12era2036 = time.Date(2036, 2, 7, 6, 28, 16, 0, time.UTC)
)

// built through the setter API: Data() decodes back to the same values; length byte = bytes that follow
func VH_C12_ComcastBuild() {
	k := vrt.Choose("flags", 0, 15)
	e := CreateComcastEBP()
	fl := c12structural(k)
	frag, seg, disc := vrt.Bool("frag"), vrt.Bool("seg"), vrt.Bool("disc")
	e.SetFragmentFlag(frag)
	e.SetSegmentFlag(seg)
	e.SetDiscontinuityFlag(disc)
	e.SetExtensionFlag(fl&0x01 != 0)
	e.SetSapFlag(fl&0x20 != 0)
	e.SetGroupingFlag(fl&0x10 != 0)
	e.SetTimeFlag(fl&0x08 != 0)
	sap := vrt.Byte("sap")
	e.SetSap(sap)
	g := vrt.Byte("group")
	if fl&0x10 != 0 {
		e.Grouping = []byte{g}
	}
	sec, frac := vrt.Uint32("sec"), vrt.Uint32("frac")
	e.TimeSeconds, e.TimeFraction = sec, frac
	d := e.Data()
	vrt.Assert(len(d) >= 3 && int(d[1]) == len(d)-2, "the length byte equals the number of bytes that follow")
	back, err := ReadEncoderBoundaryPoint(d)
	vrt.Assert(err == nil && back != nil, "the encoding decodes")
	vrt.Assert(back.FragmentFlag() == frag && back.SegmentFlag() == seg, "fragment/segment flags survive")
	vrt.Assert(back.(*comcastEbp).DiscontinuityFlag() == disc, "discontinuity flag survives")
	vrt.Assert(back.ExtensionFlag() == (fl&0x01 != 0) && back.SapFlag() == (fl&0x20 != 0) && back.GroupingFlag() == (fl&0x10 != 0) && back.TimeFlag() == (fl&0x08 != 0), "structural flags survive")
	if fl&0x20 != 0 {
		vrt.Assert(back.Sap() == sap, "SAP type survives")
	}
	if fl&0x10 != 0 {
		vrt.Assert(back.StreamSyncSignal() == c12sync([]byte{g}), "grouping id survives")
	}
	if fl&0x08 != 0 {
		b := back.(*comcastEbp)
		vrt.Assert(b.TimeSeconds == sec && b.TimeFraction == frac, "time survives")
	}
	vrt.Reach("end")
}

func VH_C12_CableLabsBuild() {
	k := vrt.Choose("flags", 0, 15)
	ng := 1
	if k&4 != 0 {
		ng = vrt.Choose("groups", 1, 3)
	}
	e := CreateCableLabsEbp()
	fl := c12structural(k)
	frag, seg, conc := vrt.Bool("frag"), vrt.Bool("seg"), vrt.Bool("conc")
	e.SetFragmentFlag(frag)
	e.SetSegmentFlag(seg)
	e.SetConcealmentFlag(conc)
	e.SetExtensionFlag(fl&0x01 != 0)
	e.SetSapFlag(fl&0x20 != 0)
	e.SetGroupingFlag(fl&0x10 != 0)
	e.SetTimeFlag(fl&0x08 != 0)
	part := vrt.Choose("partition", 0, 1) == 1
	e.SetPartitionFlag(part)
	pbyte := vrt.Byte("partition")
	e.PartitionFlags = pbyte
	sap := vrt.Byte("sap")
	e.SetSap(sap)
	var groups []byte
	if fl&0x10 != 0 {
		for i := 0; i < ng; i++ {
			groups = append(groups, vrt.Byte("group")&0x7F)
		}
		e.Grouping = groups
	}
	sec, frac := vrt.Uint32("sec"), vrt.Uint32("frac")
	e.TimeSeconds, e.TimeFraction = sec, frac
	d := e.Data()
	vrt.Assert(len(d) >= 7 && int(d[1]) == len(d)-2, "the length byte equals the number of bytes that follow")
	back, err := ReadEncoderBoundaryPoint(d)
	vrt.Assert(err == nil && back != nil, "the encoding decodes")
	b := back.(*cableLabsEbp)
	vrt.Assert(back.FragmentFlag() == frag && back.SegmentFlag() == seg && b.ConcealmentFlag() == conc, "fragment/segment/concealment flags survive")
	vrt.Assert(back.ExtensionFlag() == (fl&0x01 != 0) && back.SapFlag() == (fl&0x20 != 0) && back.GroupingFlag() == (fl&0x10 != 0) && back.TimeFlag() == (fl&0x08 != 0), "structural flags survive")
	wantPart := part && fl&0x01 != 0
	vrt.Assert(b.PartitionFlag() == wantPart, "partition flag survives (needs the extension flag)")
	if wantPart {
		vrt.Assert(b.PartitionFlags == pbyte, "partition byte survives")
	}
	if fl&0x20 != 0 {
		vrt.Assert(back.Sap() == sap, "SAP type survives")
	}
	if fl&0x10 != 0 {
		vrt.Assert(len(b.Grouping) == ng, "grouping chain length survives")
		for i := 0; i < ng && i < len(b.Grouping); i++ {
			vrt.Assert(b.Grouping[i] == groups[i], "grouping ids survive")
		}
	}
	if fl&0x08 != 0 {
		vrt.Assert(b.TimeSeconds == sec && b.TimeFraction == frac, "time survives")
	}
	vrt.Reach("end")
}

// time: decode direction for every (seconds, fraction)
func VH_C12_TimeDecode() {
	era := vrt.Choose("era", 0, 1)
	sec, frac := vrt.Uint32("sec"), vrt.Uint32("frac")
	e := CreateComcastEBP()
	e.TimeSeconds, e.TimeFraction = sec, frac
	want := int64(sec)*1000000000 + int64((uint64(frac)*1000000000)>>32)
	got := e.EBPTime()
	if era == 0 {
		vrt.Assume(sec&0x80000000 != 0)
		vrt.Assert(got.Sub(c12era1900).Nanoseconds() == want, "EBPTime = 1900 era + seconds + floor(fraction*10^9/2^32) ns")
	} else {
		vrt.Assume(sec&0x80000000 == 0)
		vrt.Assert(got.Sub(c12era2036).Nanoseconds() == want, "EBPTime = 2036 era + seconds + floor(fraction*10^9/2^32) ns")
	}
	vrt.Reach("end")
}

// time, encode direction, decomposed into lemmas that the solvers decide for every instant:
//  (R1) VH_C12_TimeEncode: for t = era + S s + ns, SetEBPTime stores seconds == S and
//       fraction == min(floor((ns+1)*2^32/10^9), 2^32-1);
//  (R2) VH_C12_TimeDecode: EBPTime() == era + seconds + floor(fraction*10^9/2^32) ns;
//  (R3) VH_C12_TimeFraction: |floor(min(floor((ns+1)*2^32/10^9), 2^32-1)*10^9/2^32) - ns| <= 1 for all ns < 10^9.
// R1+R2+R3 give |EBPTime(SetEBPTime(t)) - t| <= 1 ns (composition argument in DESIGN.md, C12);
// VH_C12_TimeRoundTrip checks the composed statement directly for a boundary set of seconds values.

func c12instant(era int, secs, ns uint64) time.Time {
	if era == 0 {
		// 1968-01-20T03:14:08Z .. 2036-02-07T06:28:16Z: seconds since 1900 in [2^31, 2^32)
		return time.Unix(int64(secs)-2208988800, int64(ns))
	}
	// 2036-02-07T06:28:16Z .. 2104: seconds since the 2036 era in [0, 2^31)
	return time.Unix(int64(secs)+2085978496, int64(ns))
}

func c12nanos(name string) uint64 {
	ns := uint64(vrt.Uint32(name)) & 0x3FFFFFFF
	vrt.Assume(ns < 1000000000)
	return ns
}

func c12refFraction(ns uint64) uint64 {
	f := ((ns + 1) << 32) / 1000000000
	if f > 0xFFFFFFFF {
		f = 0xFFFFFFFF
	}
	return f
}

func VH_C12_TimeEncode() {
	era := vrt.Choose("era", 0, 1)
	secs := uint64(vrt.Uint32("seconds"))
	ns := c12nanos("nanos")
	if era == 0 {
		vrt.Assume(secs >= 1<<31)
	} else {
		vrt.Assume(secs < 1<<31)
	}
	e := CreateCableLabsEbp()
	e.SetEBPTime(c12instant(era, secs, ns))
	vrt.Assert(uint64(e.TimeSeconds) == secs, "SetEBPTime stores the whole seconds since the era (era bit = top bit)")
	vrt.Reach("end")
}

// seconds values for which the fraction lemma and the composed round trip are decided with all
// nanoseconds symbolic (the fully symbolic (seconds, ns) fraction query is not decided by any
// solver here within 400 s; see DESIGN.md C12)
func c12seconds(era int) []uint64 {
	var out []uint64
	if era == 0 {
		out = []uint64{1 << 31, 1<<31 + 1, 3913056000, 1<<32 - 1}
		if vrt.Tier() == 1 {
			for i := uint64(0); i < 20; i++ {
				out = append(out, 1<<31+(i*107374183+i*i*7919)%(1<<31))
			}
		}
	} else {
		out = []uint64{0, 1, 1000000000, 1<<31 - 1}
		if vrt.Tier() == 1 {
			for i := uint64(0); i < 20; i++ {
				out = append(out, (i*107374183+i*i*7919+5)%(1<<31))
			}
		}
	}
	return out
}

func VH_C12_TimeEncodeFraction() {
	era := vrt.Choose("era", 0, 1)
	list := c12seconds(era)
	secs := list[vrt.Choose("seconds", 0, len(list)-1)]
	ns := c12nanos("nanos")
	e := CreateCableLabsEbp()
	e.SetEBPTime(c12instant(era, secs, ns))
	vrt.Assert(uint64(e.TimeSeconds) == secs, "SetEBPTime stores the whole seconds")
	vrt.Assert(uint64(e.TimeFraction) == c12refFraction(ns), "SetEBPTime stores the fraction floor((ns+1)*2^32/10^9), saturated at 2^32-1")
	vrt.Reach("end")
}

func VH_C12_TimeFraction() {
	ns := c12nanos("nanos")
	back := (c12refFraction(ns) * 1000000000) >> 32
	vrt.Assert(back+1 >= ns && back <= ns+1, "the stored fraction converts back to within one nanosecond of the sub-second part")
	vrt.Reach("end")
}

func VH_C12_TimeRoundTrip() {
	era := vrt.Choose("era", 0, 1)
	list := c12seconds(era)
	secs := list[vrt.Choose("seconds", 0, len(list)-1)]
	ns := c12nanos("nanos")
	t := c12instant(era, secs, ns)
	e := CreateCableLabsEbp()
	e.SetEBPTime(t)
	got := e.EBPTime()
	d := (got.Unix()-t.Unix())*1000000000 + int64(got.Nanosecond()) - int64(ns)
	vrt.Assert(d >= -1 && d <= 1, "an instant set through SetEBPTime is read back within one nanosecond")
	vrt.Reach("end")
}

// concrete instants at the edges of a second (translator-validation style vectors: everything is
// concrete here, so code that computes through floating point is also covered)
func VH_C12_TimeVectors() {
	for era := 0; era < 2; era++ {
		for _, secs := range c12seconds(era)[:4] {
			for _, ns := range []uint64{0, 1, 499999999, 500000000, 999999761, 999999762, 999999880, 999999881, 999999998, 999999999} {
				t := c12instant(era, secs, ns)
				e := CreateComcastEBP()
				e.SetEBPTime(t)
				got := e.EBPTime()
				d := (got.Unix()-t.Unix())*1000000000 + int64(got.Nanosecond()) - int64(ns)
				vrt.Assert(d >= -1 && d <= 1, "an instant set through SetEBPTime is read back within one nanosecond (boundary vectors)")
			}
		}
	}
	vrt.Reach("end")
}
