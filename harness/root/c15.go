package gots

import "github.com/Comcast/gots/v2/zzverif/vrt"

// C15 — PTS arithmetic modulo 2^33. Reference: plain integer arithmetic on 33-bit values.

const c15Mask = uint64(1)<<33 - 1
const c15Win = uint64(162000000)

func c15pts(name string) PTS {
	v := vrt.Uint64(name)
	vrt.Assume(v <= c15Mask)
	return PTS(v)
}

func VH_C15_RolledOver() {
	p, q := c15pts("p"), c15pts("q")
	want := uint64(p) < c15Win && uint64(q) > c15Mask-c15Win
	vrt.Assert(p.RolledOver(q) == want, "RolledOver iff p in first and q in last 30 minutes")
	vrt.Reach("end")
}

func VH_C15_AddWindow() {
	p := c15pts("p")
	d := vrt.Uint64("d")
	vrt.Assume(d >= 1 && d <= c15Win)
	r := p.Add(PTS(d))
	sum := uint64(p) + d
	wrapped := sum > c15Mask
	vrt.Assert(uint64(r) == sum&c15Mask, "Add is addition modulo 2^33")
	vrt.Assert(r.After(p), "p+d is after p")
	vrt.Assert(!p.After(r), "p is not after p+d")
	vrt.Assert(r.RolledOver(p) == wrapped, "rolled over exactly when the addition wrapped")
	vrt.Assert(!p.RolledOver(r), "p never rolled over relative to p+d")
	vrt.Assert(r.DurationFrom(p) == d, "duration from p to p+d is d")
	vrt.Assert(p.DurationFrom(r) == d, "duration is d in either order")
	vrt.Assert(r.GreaterOrEqual(p) && !p.GreaterOrEqual(r), "GreaterOrEqual follows After")
	vrt.Reach("end")
}

func VH_C15_Order() {
	p, q := c15pts("p"), c15pts("q")
	pa, qa := p.After(q), q.After(p)
	n := 0
	if pa {
		n++
	}
	if qa {
		n++
	}
	if p == q {
		n++
	}
	vrt.Assert(n == 1, "exactly one of p After q, q After p, p == q")
	vrt.Assert(!p.After(p), "After is irreflexive")
	vrt.Assert(p.GreaterOrEqual(q) == (pa || p == q), "GreaterOrEqual is After or equal")
	vrt.Assert(p.DurationFrom(q) == q.DurationFrom(p), "DurationFrom is symmetric")
	vrt.Assert((p.DurationFrom(q) == 0) == (p == q), "DurationFrom is zero only on equal times")
	vrt.Assert(p.After(PtsNegativeInfinity), "every finite time is after negative infinity")
	vrt.Assert(!p.After(PtsPositiveInfinity), "no finite time is after positive infinity")
	vrt.Assert(p.GreaterOrEqual(PtsNegativeInfinity), "finite >= negative infinity")
	vrt.Reach("end")
}

func VH_C15_AddAny() {
	p, x := c15pts("p"), c15pts("x")
	vrt.Assert(uint64(p.Add(x)) == (uint64(p)+uint64(x))&c15Mask, "Add of any two 33-bit times is their sum modulo 2^33")
	vrt.Assert(uint64(p.Add(x)) <= c15Mask, "Add stays within 33 bits")
	vrt.Reach("end")
}
