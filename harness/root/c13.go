package gots

import "github.com/Comcast/gots/v2/zzverif/vrt"

// C13 — ComputeCRC is CRC-32/MPEG-2 (poly 0x04C11DB7, init 0xFFFFFFFF, MSB first, no final xor).
// Reference: the textbook bit-serial byte update.

const c13fn = "github.com/Comcast/gots/v2.ComputeCRC"

func c13step(crc uint32, b byte) uint32 {
	crc ^= uint32(b) << 24
	for i := 0; i < 8; i++ {
		if crc&0x80000000 != 0 {
			crc = crc<<1 ^ 0x04C11DB7
		} else {
			crc <<= 1
		}
	}
	return crc
}

func c13ref(data []byte) uint32 {
	crc := uint32(0xFFFFFFFF)
	for _, b := range data {
		crc = c13step(crc, b)
	}
	return crc
}

func c13val(b []byte) uint32 {
	return uint32(b[0])<<24 | uint32(b[1])<<16 | uint32(b[2])<<8 | uint32(b[3])
}

// direct: all inputs of length n (0..3) against the reference
func VH_C13_Direct() {
	n := vrt.Choose("len", 0, 3)
	in := make([]byte, n)
	vrt.Bytes("in", in)
	keep := make([]byte, n)
	copy(keep, in)
	out := ComputeCRC(in)
	vrt.Assert(len(out) == 4, "ComputeCRC returns four bytes")
	vrt.Assert(c13val(out) == c13ref(in), "ComputeCRC = CRC-32/MPEG-2 (big-endian) on every input of this length")
	for i := 0; i < n; i++ {
		vrt.Assert(in[i] == keep[i], "ComputeCRC does not modify its input")
	}
	vrt.Reach("end")
}

// base of the induction: the empty string has checksum 0xFFFFFFFF
func VH_C13_Base() {
	out := ComputeCRC(nil)
	vrt.Assert(len(out) == 4 && c13val(out) == 0xFFFFFFFF, "checksum of the empty string is the initial value FF FF FF FF")
	out = ComputeCRC([]byte{})
	vrt.Assert(c13val(out) == 0xFFFFFFFF, "same for an empty non-nil slice")
	vrt.Reach("end")
}

// inductive step (loop cut): with the CRC register at the head of the byte loop replaced by an
// arbitrary value R, consuming one more byte b before the flush equals one textbook byte update
// applied to the flushed value: out(R,[b]) == step(out(R,[]), b). Together with Base this gives
// ComputeCRC(s) == CRC-32/MPEG-2(s) for every length by induction on s (argument in DESIGN.md, C13).
func VH_C13_Step() {
	vrt.HavocLoop(c13fn, "crc")
	b := vrt.Byte("b")
	o1 := ComputeCRC([]byte{b})
	o0 := ComputeCRC(nil)
	vrt.HavocLoop(c13fn, "")
	if vrt.HavocUsed(c13fn) {
		vrt.Assert(c13val(o1) == c13step(c13val(o0), b), "inductive step: one more input byte = one textbook CRC byte update of the result")
	}
	vrt.Reach("end")
}

// residue: from any register state, appending the four checksum bytes yields checksum zero.
func VH_C13_Residue() {
	vrt.HavocLoop(c13fn, "crc")
	o0 := ComputeCRC(nil)
	o4 := ComputeCRC([]byte{o0[0], o0[1], o0[2], o0[3]})
	vrt.HavocLoop(c13fn, "")
	if vrt.HavocUsed(c13fn) {
		vrt.Assert(c13val(o4) == 0, "appending the checksum to any string gives a string whose checksum is zero")
	}
	// and concretely through the public function for short strings
	n := vrt.Choose("len", 0, 2)
	in := make([]byte, n)
	vrt.Bytes("in", in)
	crc := ComputeCRC(in)
	all := append(append([]byte{}, in...), crc...)
	vrt.Assert(c13val(ComputeCRC(all)) == 0, "ComputeCRC(s || ComputeCRC(s)) == 0 for every s of this length")
	vrt.Reach("end")
}

// golden vectors: the PAT/PMT sections of the repository's own test packets
func VH_C13_Golden() {
	pat := []byte{0x00, 0xb0, 0x0d, 0x00, 0x01, 0xcb, 0x00, 0x00, 0x00, 0x01, 0xe0, 0x64}
	vrt.Assert(c13val(ComputeCRC(pat)) == 0x68d6842e, "CRC of the repository's test PAT section")
	vrt.Assert(c13val(ComputeCRC([]byte("123456789"))) == 0x0376E6E7, "CRC-32/MPEG-2 check value of \"123456789\"")
	vrt.Reach("end")
}

// long inputs: a concrete (pseudo-random) prefix of section-sized length followed by one fully
// symbolic final byte, compared with the reference: every value of the last byte at that
// position, for lengths around the 1021/1024-byte section limits.
func VH_C13_LongInputs() {
	lens := []int{4, 100, 183, 1019, 1020, 1021, 1022, 1023, 1024, 1025, 2000}
	n := lens[vrt.Choose("len", 0, len(lens)-1)]
	in := make([]byte, n)
	x := uint32(0x2545F491)
	for i := range in {
		x ^= x << 13
		x ^= x >> 17
		x ^= x << 5
		in[i] = byte(x >> 11)
	}
	last := vrt.Byte("last")
	in[n-1] = last
	out := ComputeCRC(in)
	vrt.Assert(c13val(out) == c13ref(in), "ComputeCRC = CRC-32/MPEG-2 on section-sized inputs (every value of the final byte)")
	// single-bit strings of this length (concrete): first, middle and last byte, lowest and highest bit
	for _, pos := range []int{0, n / 2, n - 1} {
		for _, bit := range []uint{0, 7} {
			z := make([]byte, n)
			z[pos] = 1 << bit
			vrt.Assert(c13val(ComputeCRC(z)) == c13ref(z), "ComputeCRC = CRC-32/MPEG-2 on single-bit strings of this length")
		}
	}
	vrt.Reach("end")
}
