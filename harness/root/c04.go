package gots

import "github.com/Comcast/gots/v2/zzverif/vrt"

// C04 — PCR (33-bit base, 6 reserved, 9-bit extension) and PTS/DTS (4+3+1+15+1+15+1) codecs.

const c04PCRLimit = (uint64(1) << 33) * 300

// reference PCR bytes per ISO/IEC 13818-1 2.4.3.5
func c04refPCR(v uint64) [6]byte {
	base := v / 300
	ext := v % 300
	return [6]byte{byte(base >> 25), byte(base >> 17), byte(base >> 9), byte(base >> 1),
		byte(base&1)<<7 | 0x7E | byte(ext>>8), byte(ext)}
}

// reference PTS bytes per ISO/IEC 13818-1 2.4.3.7 ('0010' prefix)
func c04refPTS(v uint64) [5]byte {
	return [5]byte{0x21 | byte(v>>30&7)<<1, byte(v >> 22), byte(v>>15&0x7F)<<1 | 1, byte(v >> 7), byte(v&0x7F)<<1 | 1}
}

func VH_C04_PCRRoundTrip() {
	pcr := vrt.Uint64("pcr")
	vrt.Assume(pcr < c04PCRLimit)
	var w [8]byte
	vrt.Bytes("prior", w[:])
	g0, g7 := w[0], w[7]
	InsertPCR(w[1:7], pcr)
	ref := c04refPCR(pcr)
	for i := 0; i < 6; i++ {
		vrt.Assert(w[1+i] == ref[i], "InsertPCR writes the ISO 13818-1 layout (33-bit base, six reserved ones, 9-bit extension)")
	}
	vrt.Assert(w[0] == g0 && w[7] == g7, "InsertPCR touches no byte beyond the six")
	vrt.Assert(ExtractPCR(w[1:7]) == pcr, "ExtractPCR(InsertPCR(v)) == v")
	vrt.Reach("end")
}

func VH_C04_PCRDecode() {
	var b [6]byte
	vrt.Bytes("b", b[:])
	base := uint64(b[0])<<25 | uint64(b[1])<<17 | uint64(b[2])<<9 | uint64(b[3])<<1 | uint64(b[4])>>7
	ext := uint64(b[4]&1)<<8 | uint64(b[5])
	vrt.Assert(ExtractPCR(b[:]) == base*300+ext, "ExtractPCR = base*300 + extension on every input")
	m := vrt.Byte("mask")
	c := b
	c[4] ^= m & 0x7E
	vrt.Assert(ExtractPCR(c[:]) == ExtractPCR(b[:]), "flipping reserved PCR bits does not change the decoded value")
	vrt.Assert(c != b || m&0x7E == 0, "sanity: the flipped copy differs when the mask is non-zero")
	vrt.Reach("end")
}

func VH_C04_PTSRoundTrip() {
	pts := vrt.Uint64("pts")
	vrt.Assume(pts < uint64(1)<<33)
	var w [7]byte
	vrt.Bytes("prior", w[:])
	g0, g6 := w[0], w[6]
	InsertPTS(w[1:6], pts)
	ref := c04refPTS(pts)
	for i := 0; i < 5; i++ {
		vrt.Assert(w[1+i] == ref[i], "InsertPTS writes the ISO 13818-1 layout with marker bits set")
	}
	vrt.Assert(w[0] == g0 && w[6] == g6, "InsertPTS touches no byte beyond the five")
	vrt.Assert(ExtractTime(w[1:6]) == pts, "ExtractTime(InsertPTS(v)) == v")
	vrt.Reach("end")
}

func VH_C04_PTSDecode() {
	var b [5]byte
	vrt.Bytes("b", b[:])
	want := uint64(b[0]>>1&7)<<30 | uint64(b[1])<<22 | uint64(b[2]>>1)<<15 | uint64(b[3])<<7 | uint64(b[4]>>1)
	vrt.Assert(ExtractTime(b[:]) == want, "ExtractTime = 3+15+15 bit slices on every input")
	m0, m2, m4 := vrt.Byte("m0"), vrt.Byte("m2"), vrt.Byte("m4")
	c := b
	c[0] ^= m0 & 0xF1
	c[2] ^= m2 & 0x01
	c[4] ^= m4 & 0x01
	vrt.Assert(ExtractTime(c[:]) == ExtractTime(b[:]), "flipping prefix/marker bits does not change the decoded PTS")
	vrt.Reach("end")
}
