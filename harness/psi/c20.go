package psi

import "github.com/Comcast/gots/v2/zzverif/vrt"

// C20 — stream-type classification and PMT descriptor decoders against frozen definitions.

func c20in(code byte, set []byte) bool {
	for _, c := range set {
		if c == code {
			return true
		}
	}
	return false
}

var (
	c20audio = []byte{0x0F, 0x81, 0x87}
	c20video = []byte{0x02, 0x1B, 0x24}
	c20lags  = []byte{0x03, 0x04, 0x0F, 0x11, 0x81, 0x87, 0x88}
)

func VH_C20_StreamTypes() {
	code := vrt.Byte("code")
	st := LookupPmtStreamType(code)
	vrt.Assert(st.StreamType() == code, "the lookup returns the code it was asked for")
	vrt.Assert(len(st.StreamTypeDescription()) > 0, "every code has a non-empty description")
	vrt.Assert(st.IsAudioContent() == c20in(code, c20audio), "audio exactly for AAC-ADTS 0x0F, AC-3 0x81, E-AC-3 0x87")
	vrt.Assert(st.IsVideoContent() == c20in(code, c20video), "video exactly for MPEG-2 0x02, AVC 0x1B, HEVC 0x24")
	vrt.Assert(st.IsSCTE35Content() == (code == 0x86), "SCTE-35 exactly for 0x86")
	vrt.Assert(st.IsID3Content() == (code == 0x15), "ID3 metadata exactly for 0x15")
	vrt.Assert(st.IsPrivateContent() == (code == 0x06), "private PES exactly for 0x06")
	vrt.Assert(st.IsStreamWherePresentationLagsEbp() == c20in(code, c20lags), "presentation lags EBP exactly for 0x03 0x04 0x0F 0x11 0x81 0x87 0x88")
	vrt.Reach("end")
}

// the PMT-level query by PID reports the same classification
func VH_C20_LagsByPid() {
	m := c06section(c06shape{st: [][]int{{}, {}}})
	vrt.Assume(m.streams[0].pid != m.streams[1].pid)
	p, err := NewPMT(c06payload(0, [][]byte{m.section}, 1))
	vrt.Assert(err == nil && p != nil, "the PMT decodes")
	for i := 0; i < 2; i++ {
		vrt.Assert(p.IsPidForStreamWherePresentationLagsEbp(m.streams[i].pid) == c20in(m.streams[i].typ, c20lags), "the PMT-level query by PID reports the stream's classification")
	}
	other := vrt.Int("otherpid")
	vrt.Assume(other != m.streams[0].pid && other != m.streams[1].pid)
	vrt.Assert(!p.IsPidForStreamWherePresentationLagsEbp(other), "a PID that is not in the PMT does not lag")
	vrt.Reach("end")
}

func c20bodyMax() int {
	if vrt.Tier() == 0 {
		return 6
	}
	return 10
}

func VH_C20_MaxBitrate() {
	tag := vrt.Byte("tag")
	n := vrt.Choose("len", 3, c20bodyMax())
	body := make([]byte, n)
	vrt.Bytes("body", body)
	d := NewPmtDescriptor(tag, body)
	vrt.Assert(d.Tag() == tag, "Tag")
	vrt.Assert(d.IsMaximumBitrateDescriptor() == (tag == 0x0E), "maximum bitrate descriptor is tag 0x0E")
	rate := uint32(body[0]&0x3F)<<16 | uint32(body[1])<<8 | uint32(body[2])
	if tag == 0x0E {
		vrt.Assume(rate < 1<<21)
		vrt.Assert(d.DecodeMaximumBitRate() == rate, "maximum_bitrate is the 22-bit field (values below 2^21)")
	} else {
		vrt.Assert(d.DecodeMaximumBitRate() == 0, "a descriptor of another tag has no maximum bitrate")
	}
	// stream level: value x 50 x 8
	other := NewPmtDescriptor(vrt.Byte("tag2"), nil)
	vrt.Assume(other.Tag() != 0x0E)
	es := NewPmtElementaryStream(vrt.Byte("st"), 100, []PmtDescriptor{other, d})
	if tag == 0x0E {
		vrt.Assert(es.MaxBitRate() == uint64(rate)*400, "the stream's bit rate is maximum_bitrate x 50 x 8")
	} else {
		vrt.Assert(es.MaxBitRate() == 0, "no maximum bitrate descriptor: bit rate 0")
	}
	vrt.Reach("end")
}

func VH_C20_Language() {
	tag := vrt.Byte("tag")
	n := vrt.Choose("len", 4, c20bodyMax())
	body := make([]byte, n)
	vrt.Bytes("body", body)
	d := NewPmtDescriptor(tag, body)
	vrt.Assert(d.IsIso639LanguageDescriptor() == (tag == 0x0A), "ISO-639 language descriptor is tag 0x0A")
	code := d.DecodeIso639LanguageCode()
	if tag == 0x0A {
		vrt.Assert(len(code) == 3 && code[0] == body[0] && code[1] == body[1] && code[2] == body[2], "language code is the first three bytes")
		vrt.Assert(d.DecodeIso639AudioType() == body[3], "audio type is the fourth byte")
	} else {
		vrt.Assert(code == "", "a descriptor of another tag has no language code")
		vrt.Assert(d.DecodeIso639AudioType() == 0, "a descriptor of another tag has audio type 0")
	}
	vrt.Reach("end")
}

func VH_C20_TTML() {
	tag := vrt.Byte("tag")
	n := vrt.Choose("len", 5, c20bodyMax())
	body := make([]byte, n)
	vrt.Bytes("body", body)
	d := NewPmtDescriptor(tag, body)
	vrt.Assert(d.IsTTMLSubtitlingDescriptor() == (tag == 0x7F), "DVB extension descriptor is tag 0x7F")
	vrt.Assert(d.IsTTMLDescTagExtension() == (body[0] == 0x20), "TTML descriptor_tag_extension is 0x20")
	lang := d.DecodeTTMLIso639LanguageCode()
	if tag == 0x7F {
		vrt.Assert(len(lang) == 3 && lang[0] == body[1] && lang[1] == body[2] && lang[2] == body[3], "TTML language code is bytes 1..3")
		vrt.Assert(d.DecodeTTMLSubtitlePurpose() == body[4]>>2, "TTML subtitle purpose is the top six bits of byte 4")
	} else {
		vrt.Assert(lang == "", "a descriptor of another tag has no TTML language")
		vrt.Assert(d.DecodeTTMLSubtitlePurpose() == 0xFF, "a descriptor of another tag has purpose 0xFF")
	}
	es := NewPmtElementaryStream(6, 100, []PmtDescriptor{d})
	vrt.Assert(es.IsTTMLSubtitling() == (tag == 0x7F && body[0] == 0x20), "a stream is TTML subtitling exactly when it has a TTML extension descriptor")
	vrt.Reach("end")
}

func VH_C20_DolbyVisionRegistration() {
	tag := vrt.Byte("tag")
	n := vrt.Choose("len", 4, c20bodyMax())
	body := make([]byte, n)
	vrt.Bytes("body", body)
	d := NewPmtDescriptor(tag, body)
	want := tag == 0x05 && body[0] == 'D' && body[1] == 'O' && body[2] == 'V' && body[3] == 'I'
	vrt.Assert(d.IsDolbyVision() == want, "DOVI registration test: tag 0x05 and format identifier DOVI")
	vrt.Assert(d.IsEBPDescriptor() == (tag == 0xE9), "EBP descriptor is tag 0xE9")
	vrt.Reach("end")
}

func c20two(v int) string {
	if v < 100 {
		return string([]byte{byte('0' + v/10), byte('0' + v%10)})
	}
	return string([]byte{byte('0' + v/100), byte('0' + v/10%10), byte('0' + v%10)})
}

func VH_C20_DolbyVisionCodec() {
	n := vrt.Choose("len", 4, 6)
	body := make([]byte, n)
	vrt.Bytes("body", body)
	low := body[3] & 7
	for profile := 0; profile < 128; profile++ {
		for level := 0; level < 32; level++ {
			num := uint16(profile)<<9 | uint16(level)<<3 | uint16(low)
			body[2], body[3] = byte(num>>8), byte(num)
			d := NewPmtDescriptor(0xB0, body)
			vrt.Assert(d.DecodeDolbyVisionCodec("hev1") == "dvhe."+c20two(profile)+"."+c20two(level), "Dolby Vision codec string dvhe.PP.LL from profile and level")
		}
	}
	tag := vrt.Byte("tag")
	vrt.Assume(tag != 0xB0)
	vrt.Assert(NewPmtDescriptor(tag, body).DecodeDolbyVisionCodec("hev1") == "", "a descriptor of another tag has no Dolby Vision codec")
	vrt.Reach("end")
}
