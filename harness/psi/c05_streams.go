package psi

import (
	"github.com/Comcast/gots/v2/packet"
	"github.com/Comcast/gots/v2/zzverif/vrt"
)

// C05 — stream readers on arbitrary byte streams: up to 1 (thorough 2) packets whose first 12
// bytes are symbolic (header, adaptation field length/flags, start of the payload; the rest is
// 0xFF stuffing), followed by a ragged tail of 0 or 2 symbolic bytes.
// c05pkt: adaptation_field_control and adaptation_field_length from a boundary set (concrete, so
// that the payload offset is concrete), the other header bits and the first 8 bytes after the
// header symbolic, the rest 0xFF stuffing
func c05pkt(name string) packet.Packet {
	var p packet.Packet
	vrt.Bytes(name, p[:4])
	if vrt.Tier() == 0 {
		p[3] = p[3]&0xCF | []byte{0x10, 0x30}[vrt.Choose("afc", 0, 1)]
		p[4] = []byte{0, 183, 255}[vrt.Choose("afLength", 0, 2)]
	} else {
		p[3] = p[3]&0xCF | byte(vrt.Choose("afc", 0, 3))<<4
		p[4] = []byte{0, 1, 170, 183, 184, 255}[vrt.Choose("afLength", 0, 5)]
	}
	start := 4
	if p[3]&0x20 != 0 {
		p[5] = vrt.Byte(name + ".flags")
		start = 5 + int(p[4])
	} else {
		p[4] = vrt.Byte(name + ".b4")
	}
	for j := 5; j < 188; j++ {
		if p[3]&0x20 == 0 || j > 5 {
			p[j] = 0xFF
		}
	}
	body := make([]byte, 6+2*vrt.Tier())
	vrt.Bytes(name+".body", body)
	for j := 0; j < len(body) && start+j < 188; j++ {
		p[start+j] = body[j]
	}
	return p
}

func c05stream() []byte {
	n := vrt.Choose("packets", 0, 1+vrt.Tier())
	tail := vrt.Choose("tail", 0, 1) * 2
	var out []byte
	for i := 0; i < n; i++ {
		p := c05pkt("pkt")
		out = append(out, p[:]...)
	}
	t := make([]byte, tail)
	vrt.Bytes("tail", t)
	return append(out, t...)
}

func VH_C05_ReadPAT() {
	vrt.SetUnwind(400, true)
	s := c05stream()
	keep := append([]byte{}, s...)
	p, err := ReadPAT(&c07reader{s: s})
	if err == nil && p != nil {
		_ = p.NumPrograms()
		_ = p.ProgramMap()
		_, _ = p.SPTSpmtPID()
	}
	for i := range s {
		vrt.Assert(s[i] == keep[i], "the reader's data is not modified")
	}
	vrt.Reach("end")
}

func VH_C05_ReadPMT() {
	vrt.SetUnwind(400, true)
	s := c05stream()
	pid := vrt.Int("pid")
	vrt.Assume(pid >= 0 && pid < 8192)
	p, err := ReadPMT(&c07reader{s: s}, pid)
	if err == nil && p != nil {
		_ = p.Pids()
		_ = len(p.ElementaryStreams())
	}
	vrt.Reach("end")
}

func VH_C05_Filter() {
	vrt.SetUnwind(400, true)
	n := vrt.Choose("packets", 1, 1+vrt.Tier())
	var in []*packet.Packet
	var keep []packet.Packet
	for i := 0; i < n; i++ {
		p := c05pkt("p")
		in = append(in, &p)
		keep = append(keep, p)
	}
	_, _ = FilterPMTPacketsToPids(in, []int{vrt.Int("pid")})
	for i := range in {
		vrt.Assert(*in[i] == keep[i], "filtering never modifies the input packets")
	}
	vrt.Reach("end")
}
