package psi

import (
	"github.com/Comcast/gots/v2/packet"
	"github.com/Comcast/gots/v2/zzverif/vrt"
)

func c05n() int {
	if vrt.Tier() == 0 {
		return 20
	}
	return 28
}

func c05bytes(max int) ([]byte, []byte) {
	n := vrt.Choose("len", 0, max)
	b := make([]byte, n)
	vrt.Bytes("b", b)
	return b, append([]byte{}, b...)
}

func c05unchanged(b, keep []byte) {
	for i := range b {
		vrt.Assert(b[i] == keep[i], "the operation never modifies its input")
	}
}

// C05 — PSI header accessors on every byte string
func VH_C05_PSIAccessors() {
	op := vrt.Choose("op", 0, 6)
	b, keep := c05bytes(8)
	// reached before the call: for the shortest inputs the accessors without error result end in a
	// listed known panic (C05-F1..F6), so nothing after the call is reachable there
	vrt.Reach("called")
	switch op {
	case 0:
		_ = PointerField(b)
	case 1:
		_ = TableID(b)
	case 2:
		_ = SectionSyntaxIndicator(b)
	case 3:
		_ = PrivateIndicator(b)
	case 4:
		_ = SectionLength(b)
	case 5:
		_, _ = TableHeaderFromBytes(b)
	case 6:
		_, _ = ExtractCRC(b)
	}
	c05unchanged(b, keep)
}

func VH_C05_PAT() {
	vrt.SetUnwind(300, true)
	b, keep := c05bytes(c05n())
	p, err := NewPAT(b)
	if err == nil && p != nil {
		_ = p.NumPrograms()
		_ = p.ProgramMap()
		_, _ = p.SPTSpmtPID()
		var pkt packet.Packet
		vrt.Bytes("pkt", pkt[:])
		_, _ = IsPMT(&pkt, p)
	}
	c05unchanged(b, keep)
	vrt.Reach("end")
}

func VH_C05_PATPacket() {
	vrt.SetUnwind(300, true)
	b := make([]byte, 188)
	vrt.Bytes("b", b)
	p, err := NewPAT(b)
	if err == nil && p != nil {
		_ = p.NumPrograms()
		_, _ = p.SPTSpmtPID()
	}
	vrt.Reach("end")
}

func VH_C05_DoneFunc() {
	vrt.SetUnwind(300, true)
	b, keep := c05bytes(c05n())
	_, _ = PmtAccumulatorDoneFunc(b)
	c05unchanged(b, keep)
	vrt.Reach("end")
}

func VH_C05_PMT() {
	vrt.SetUnwind(300, true)
	// fully symbolic PMT bytes: exploration time grows steeply with the length (thorough tier:
	// 22 bytes 218 s, 24 bytes 363 s, 25 bytes 954 s, 26 bytes 1068 s of an 1080 s budget), so the
	// thorough bound of this harness is 24; the other psi parsers run to 28
	n := c05n()
	if n > 24 {
		n = 24
	}
	b, keep := c05bytes(n)
	if len(b) == 0 {
		vrt.Reach("end")
		return
	}
	p, err := NewPMT(b)
	if err == nil && p != nil {
		_ = p.Pids()
		_ = p.VersionNumber()
		_ = p.CurrentNextIndicator()
		for _, es := range p.ElementaryStreams() {
			_ = es.StreamType()
			_ = es.ElementaryPid()
			_ = es.MaxBitRate()
			_ = es.IsTTMLSubtitling()
			_ = len(es.Descriptors())
		}
		_ = p.PIDExists(vrt.Int("pid"))
		_ = p.IsPidForStreamWherePresentationLagsEbp(vrt.Int("pid2"))
		p.RemoveElementaryStreams([]int{vrt.Int("pid3")})
	}
	c05unchanged(b, keep)
	vrt.Reach("end")
}

func VH_C05_EmptyPMT() {
	p, err := NewPMT(nil)
	_, _ = p, err
	vrt.Reach("end")
}

// descriptor decoders on bodies of every length 0..8 and every tag
func VH_C05_Descriptors() {
	vrt.SetUnwind(600, true)
	op := vrt.Choose("op", 0, 12)
	n := vrt.Choose("len", 0, 8)
	body := make([]byte, n)
	vrt.Bytes("body", body)
	keep := append([]byte{}, body...)
	d := NewPmtDescriptor(vrt.Byte("tag"), body)
	switch op {
	case 0:
		_ = d.Tag()
		_ = d.IsIso639LanguageDescriptor()
		_ = d.IsMaximumBitrateDescriptor()
		_ = d.IsEBPDescriptor()
		_ = d.IsTTMLSubtitlingDescriptor()
	case 1:
		_ = d.DecodeMaximumBitRate()
	case 2:
		_ = d.DecodeIso639LanguageCode()
	case 3:
		_ = d.DecodeIso639AudioType()
	case 4:
		_ = d.IsIFrameProfile()
	case 5:
		_ = d.IsDolbyATMOS()
	case 6:
		_ = d.IsDolbyVision()
	case 7:
		_ = d.DecodeDolbyVisionCodec("hev1")
	case 8:
		_ = d.DecodeTTMLIso639LanguageCode()
	case 9:
		_ = d.DecodeTTMLSubtitlePurpose()
	case 10:
		_ = d.IsTTMLDescTagExtension()
	case 11:
		_ = d.Format()
	case 12:
		es := NewPmtElementaryStream(vrt.Byte("st"), 100, []PmtDescriptor{d})
		_ = es.MaxBitRate()
		_ = es.IsTTMLSubtitling()
	}
	c05unchanged(body, keep)
	vrt.Reach("end")
}

// PMT payloads whose section header is well-formed (pointer_field 0, table_id 0x02) so that the
// stream and descriptor loops are reached with arbitrary bytes: body of n symbolic bytes, the
// section_length either consistent with the body or an arbitrary (corrupted) byte.
func VH_C05_PMTBody() {
	vrt.SetUnwind(300, true)
	max := 19
	if vrt.Tier() == 1 {
		max = 22
	}
	n := vrt.Choose("bodyLen", 0, max)
	lenMode := vrt.Choose("sectionLength", 0, 1)
	body := make([]byte, n)
	vrt.Bytes("body", body)
	sl := byte(n)
	if lenMode == 1 {
		sl = vrt.Byte("sl")
	}
	b := append([]byte{0, 0x02, 0xB0, sl}, body...)
	keep := append([]byte{}, b...)
	p, err := NewPMT(b)
	if err == nil && p != nil {
		_ = p.Pids()
		for _, es := range p.ElementaryStreams() {
			_ = es.MaxBitRate()
			_ = es.IsTTMLSubtitling()
		}
	}
	_, _ = PmtAccumulatorDoneFunc(b)
	_, _ = ExtractCRC(b)
	c05unchanged(b, keep)
	vrt.Reach("end")
}
