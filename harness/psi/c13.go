package psi

import (
	"github.com/Comcast/gots/v2"
	"github.com/Comcast/gots/v2/packet"
	"github.com/Comcast/gots/v2/zzverif/vrt"
)

// C13, emitter clause for filtered PMTs: the CRC_32 of the section written by
// FilterPMTPacketsToPids is the checksum function applied to all preceding bytes of the emitted
// section, and section_length is consistent with it (ComputeCRC uninterpreted, see scte35/c13.go).
func VH_C13_EmitFilteredPMT() {
	shapes := c14shapes()
	sh := shapes[vrt.Choose("shape", 0, len(shapes)-1)]
	k := len(sh.st)
	vrt.Assume(k >= 1)
	keepMask := vrt.Choose("keep", 1, 1<<uint(k)-1)
	carrier := vrt.Choose("carrier", 0, 1)
	m := c06section(sh)
	pmtPid := 0x100
	var req []int
	for i := 0; i < k; i++ {
		vrt.Assume(m.streams[i].pid != 0 && m.streams[i].pid != pmtPid)
		for j := 0; j < i; j++ {
			vrt.Assume(m.streams[i].pid != m.streams[j].pid)
		}
		if keepMask>>uint(i)&1 == 1 {
			req = append(req, m.streams[i].pid)
		}
	}
	pay := c06payload(0, [][]byte{m.section}, 0)
	p := c06carry(pmtPid, true, pay, carrier == 0)
	vrt.StubCRC(true)
	out, err := FilterPMTPacketsToPids([]*packet.Packet{&p}, req)
	vrt.StubCRC(false)
	vrt.Assert(err == nil && len(out) == 1, "filtering to present PIDs succeeds with one packet")
	if err != nil || len(out) != 1 {
		vrt.Reach("end")
		return
	}
	// expected length of the emitted section
	n := len(m.head)
	for i := 0; i < k; i++ {
		if keepMask>>uint(i)&1 == 1 {
			n += len(m.streams[i].raw)
		}
	}
	n += 4
	body, perr := packet.Payload(out[0])
	vrt.Assert(perr == nil && len(body) >= 1+n && body[0] == 0, "the output packet carries pointer_field 0 and the section")
	if perr != nil || len(body) < 1+n {
		vrt.Reach("end")
		return
	}
	sec := body[1 : 1+n]
	vrt.Assert(int(sec[1]&0x0F)<<8|int(sec[2]) == n-3, "section_length of the emitted PMT covers exactly the emitted bytes after it")
	u := vrt.UF32("crc", sec[:n-4])
	ok := sec[n-4] == byte(u>>24) && sec[n-3] == byte(u>>16) && sec[n-2] == byte(u>>8) && sec[n-1] == byte(u)
	vrt.Assert(ok, "CRC_32 of an emitted PMT section is the checksum of all its preceding bytes")
	vrt.Reach("end")
}

// one fully concrete PMT through the real checksum function: residue zero after filtering
func VH_C13_EmitConcretePMT() {
	sec := []byte{0x02, 0xB0, 0x00, 0x00, 0x01, 0xC1, 0x00, 0x00, 0xE1, 0x01, 0xF0, 0x00,
		0x1B, 0xE1, 0x01, 0xF0, 0x00,
		0x0F, 0xE1, 0x02, 0xF0, 0x06, 0x0A, 0x04, 'e', 'n', 'g', 0x00,
		0x86, 0xE1, 0x03, 0xF0, 0x00}
	sl := len(sec) - 3 + 4
	sec[1], sec[2] = 0xB0|byte(sl>>8), byte(sl)
	sec = append(sec, gots.ComputeCRC(sec)...)
	pay := append([]byte{0}, sec...)
	p := c06carry(0x100, true, pay, true)
	which := vrt.Choose("keep", 0, 2)
	req := [][]int{{0x101}, {0x102, 0x103}, {0x101, 0x102, 0x103}}[which]
	out, err := FilterPMTPacketsToPids([]*packet.Packet{&p}, req)
	vrt.Assert(err == nil && len(out) == 1, "filtering succeeds")
	if err == nil && len(out) == 1 {
		body, _ := packet.Payload(out[0])
		n := 3 + (int(body[2]&0x0F)<<8 | int(body[3]))
		r := gots.ComputeCRC(body[1 : 1+n])
		vrt.Assert(len(r) == 4 && r[0] == 0 && r[1] == 0 && r[2] == 0 && r[3] == 0, "the checksum over the whole emitted PMT section (real CRC) is zero")
	}
	vrt.Reach("end")
}
