package psi

import (
	"io"

	"github.com/Comcast/gots/v2/packet"
	"github.com/Comcast/gots/v2/zzverif/vrt"
)

// C06 — PMT decoding is exact and independent of the packetisation.

func c06shapes() []c06shape {
	quick := []c06shape{
		{},
		{st: [][]int{{}}},
		{pd: []int{2}, st: [][]int{{0}, {3}}},
		{pd: []int{0, 1}, st: [][]int{{}, {1, 2}, {}}},
		{st: [][]int{{3, 0}, {}}},
		{pd: []int{1}, st: [][]int{{2}}},
	}
	if vrt.Tier() == 0 {
		return quick
	}
	out := quick
	for _, pd := range [][]int{{}, {0}, {2, 1}} {
		for _, a := range [][]int{{}, {0}, {3}, {1, 2}} {
			for _, b := range [][]int{nil, {}, {2}, {0, 3}} {
				sh := c06shape{pd: pd, st: [][]int{a}}
				if b != nil {
					sh.st = append(sh.st, b)
				}
				out = append(out, sh)
			}
		}
	}
	out = append(out, c06shape{st: [][]int{{}, {1}, {}, {2}}}, c06shape{pd: []int{1}, st: [][]int{{0}, {}, {1}, {3, 2}}})
	return out
}

func c06pick() c06shape {
	shapes := c06shapes()
	return shapes[vrt.Choose("shape", 0, len(shapes)-1)]
}

// (a) NewPMT on pointer_field + filler + [other section] + PMT section + stuffing
func VH_C06_NewPMT() {
	sh := c06pick()
	ptr := vrt.Choose("pointer", 0, 3)
	before := vrt.Choose("otherBefore", 0, 2) // 0 none, 1 other section with empty body, 2 with 4-byte body
	stuffing := vrt.Choose("stuffing", 0, 2)
	m := c06section(sh)
	var secs [][]byte
	if before == 1 {
		secs = append(secs, c06other(0))
	} else if before == 2 {
		secs = append(secs, c06other(4))
	}
	secs = append(secs, m.section)
	pay := c06payload(ptr, secs, stuffing)
	keep := append([]byte{}, pay...)
	p, err := NewPMT(pay)
	vrt.Assert(err == nil && p != nil, "a well-formed PMT payload decodes")
	c06checkPMT(p, m)
	for i := range pay {
		vrt.Assert(pay[i] == keep[i], "decoding does not modify the payload")
	}
	vrt.Reach("end")
}

// (b) completion predicate on every prefix
func VH_C06_DonePredicate() {
	sh := c06pick()
	ptr := vrt.Choose("pointer", 0, 2)
	before := vrt.Choose("otherBefore", 0, 1)
	m := c06section(sh)
	var secs [][]byte
	firstEnd := -1
	if before == 1 {
		o := c06other(2)
		secs = append(secs, o)
		firstEnd = 1 + ptr + len(o)
	}
	secs = append(secs, m.section)
	pay := c06payload(ptr, secs, 3)
	complete := len(pay) - 3
	for k := 0; k <= len(pay); k++ {
		done, err := PmtAccumulatorDoneFunc(pay[:k])
		vrt.Assert(err == nil, "the completion predicate never fails")
		if k >= complete {
			vrt.Assert(done, "complete once all announced sections are complete (with any trailing stuffing)")
		} else if k != firstEnd {
			// O3: a prefix ending exactly at the end of a complete section that is followed by another one is excluded
			vrt.Assert(!done, "not complete on a proper prefix (inside the pointer filler, a section header or a section body)")
		}
	}
	vrt.Reach("end")
}

// (c) + (d) CRC accessor and PSI header accessors
func VH_C06_Accessors() {
	sh := c06pick()
	ptr := vrt.Choose("pointer", 0, 3)
	m := c06section(sh)
	pay := c06payload(ptr, [][]byte{m.section}, 2)
	s := m.section
	vrt.Assert(int(PointerField(pay)) == ptr, "PointerField")
	vrt.Assert(TableID(pay) == s[0], "TableID of the first section")
	vrt.Assert(SectionSyntaxIndicator(pay) == (s[1]&0x80 != 0), "SectionSyntaxIndicator")
	vrt.Assert(PrivateIndicator(pay) == (s[1]&0x40 != 0), "PrivateIndicator")
	sl := uint16(s[1]&3)<<8 | uint16(s[2])
	vrt.Assert(SectionLength(pay) == sl, "SectionLength (10 bits)")
	if ptr == 0 {
		crc, err := ExtractCRC(pay)
		n := len(s)
		want := uint32(s[n-4])<<24 | uint32(s[n-3])<<16 | uint32(s[n-2])<<8 | uint32(s[n-1])
		vrt.Assert(err == nil && crc == want, "ExtractCRC returns the section's CRC_32 field (pointer_field 0)")
	}
	vrt.Reach("end")
}

func VH_C06_TableHeader() {
	var th TableHeader
	th.TableID = vrt.Byte("table_id")
	th.SectionSyntaxIndicator = vrt.Bool("ssi")
	th.PrivateIndicator = vrt.Bool("priv")
	th.SectionLength = vrt.Uint16("len")
	vrt.Assume(th.SectionLength < 1024)
	d := th.Data()
	vrt.Assert(len(d) == 3, "an encoded table header is three bytes")
	back, err := TableHeaderFromBytes(d)
	vrt.Assert(err == nil && back == th, "encoding then decoding a table header is the identity")
	vrt.Assert(d[1]&0x30 == 0x30, "reserved bits are set to 1")
	// decode then encode: identity up to the two reserved bits
	var b [3]byte
	vrt.Bytes("raw", b[:])
	h, err := TableHeaderFromBytes(b[:])
	vrt.Assert(err == nil, "three bytes decode")
	e := h.Data()
	vrt.Assert(e[0] == b[0] && e[1] == b[1]|0x30&^0x0C|b[1]&0x0C&0 && e[2] == b[2] || (e[0] == b[0] && e[1] == (b[1]&0xC3)|0x30 && e[2] == b[2]), "decoding then encoding reproduces the bytes with reserved bits forced to 1 and unused bits cleared")
	_, err = TableHeaderFromBytes(b[:2])
	vrt.Assert(err != nil, "fewer than three bytes is an error")
	n := vrt.Choose("ptr", 0, 5)
	pf := NewPointerField(n)
	vrt.Assert(len(pf) == n+1 && int(pf[0]) == n, "NewPointerField: pointer value followed by that many bytes")
	for i := 1; i <= n; i++ {
		vrt.Assert(pf[i] == 0xFF, "pointer filler is 0xFF")
	}
	vrt.Reach("end")
}

// (e) packetisation through the real ReadPMT

type c06reader struct {
	s   []byte
	pos int
}

func (r *c06reader) Read(p []byte) (int, error) {
	if r.pos >= len(r.s) {
		return 0, io.EOF
	}
	n := copy(p, r.s[r.pos:])
	r.pos += n
	return n, nil
}

// c06carry builds a packet of the given PID carrying chunk; the unused room is taken by
// adaptation-field stuffing, or by 0xFF payload stuffing when padPayload is set (last packet).
func c06carry(pid int, pusi bool, chunk []byte, padPayload bool) packet.Packet {
	var p packet.Packet
	vrt.Bytes("tshdr", p[:4])
	p[0] = 0x47
	p[1] = p[1]&0xA0 | byte(pid>>8)
	if pusi {
		p[1] |= 0x40
	}
	p[2] = byte(pid)
	n := len(chunk)
	if padPayload || n == 184 {
		p[3] = p[3]&0xCF | 0x10
		copy(p[4:], chunk)
		for i := 4 + n; i < 188; i++ {
			p[i] = 0xFF
		}
		return p
	}
	p[3] |= 0x30
	L := 183 - n
	p[4] = byte(L)
	if L > 0 {
		p[5] = 0
		for i := 6; i < 5+L; i++ {
			p[i] = 0xFF
		}
	}
	copy(p[5+L:], chunk)
	return p
}

// c06carryAF0: adaptation_field_length 0 (one stuffing byte, no flags byte), then the chunk, then
// 0xFF payload stuffing (only valid for the last packet of a section)
func c06carryAF0(pid int, pusi bool, chunk []byte) packet.Packet {
	var p packet.Packet
	vrt.Bytes("tshdr", p[:4])
	p[0] = 0x47
	p[1] = p[1]&0xA0 | byte(pid>>8)
	if pusi {
		p[1] |= 0x40
	}
	p[2] = byte(pid)
	p[3] |= 0x30
	p[4] = 0
	copy(p[5:], chunk)
	for i := 5 + len(chunk); i < 188; i++ {
		p[i] = 0xFF
	}
	return p
}

func VH_C06_ReadPMT() {
	shapes := c06shapes()
	var withStreams []c06shape
	for _, s := range shapes {
		if len(s.st) > 0 {
			withStreams = append(withStreams, s)
		}
	}
	// quick: two shapes; thorough: every shape with streams
	nsh := 2
	if vrt.Tier() == 1 {
		nsh = len(withStreams)
	}
	sh := withStreams[vrt.Choose("shape", 0, nsh-1)]
	// split into 1..3 chunks. mode 0: one chunk; mode 1: two chunks at every cut position;
	// mode 2: three chunks, first cut at every position, second cut 1, 2 or 7 bytes later
	mode := vrt.Choose("chunks", 0, 2)
	ptr := 0
	if mode < 2 || vrt.Tier() == 1 {
		ptr = vrt.Choose("pointer", 0, 1)
	}
	m := c06section(sh)
	// stream types are concrete here (their decoding is checked with symbolic types in VH_C06_NewPMT)
	for i := range m.streams {
		t := []byte{0x1B, 0x0F, 0x86, 0x06}[i%4]
		vrt.Assume(m.streams[i].typ == t)
	}
	pay := c06payload(ptr, [][]byte{m.section}, 0)
	a, b := len(pay), len(pay)
	if mode >= 1 {
		a = vrt.Choose("cut1", 1, len(pay)-1)
	}
	if mode == 2 {
		b = a + []int{1, 2, 7}[vrt.Choose("cut2", 0, 2)]
		if b >= len(pay) {
			b = len(pay) - 1
		}
		if b <= a {
			b = len(pay)
		}
	}
	// bit 0: packets of another PID interleaved before and between; bit 1: last packet padded
	// with 0xFF payload stuffing instead of adaptation-field stuffing
	// styles 4/5: last packet with a zero-length adaptation field (the single stuffing byte) and
	// 0xFF payload stuffing after the section
	style := 0
	if mode == 2 && vrt.Tier() == 0 {
		style = []int{0, 3, 4}[vrt.Choose("style", 0, 2)]
	} else {
		style = vrt.Choose("style", 0, 5)
	}
	inter := style&1 == 1
	padLast := style&2 == 2
	af0Last := style >= 4
	pid := vrt.Int("pmtpid")
	vrt.Assume(pid >= 0x10 && pid < 0x1FFF)
	var other packet.Packet
	vrt.Bytes("otherpkt", other[:])
	opid := int(other[1]&0x1F)<<8 | int(other[2])
	vrt.Assume(opid != pid)
	var chunks [][]byte
	chunks = append(chunks, pay[:a])
	if a < len(pay) {
		if b < len(pay) {
			chunks = append(chunks, pay[a:b], pay[b:])
		} else {
			chunks = append(chunks, pay[a:])
		}
	}
	var stream []byte
	if inter {
		stream = append(stream, other[:]...)
	}
	for i, c := range chunks {
		last := i == len(chunks)-1
		pk := c06carry(pid, i == 0, c, last && padLast)
		if last && af0Last {
			pk = c06carryAF0(pid, i == 0, c)
		}
		stream = append(stream, pk[:]...)
		if !last && inter {
			stream = append(stream, other[:]...)
		}
	}
	p, err := ReadPMT(&c06reader{s: stream}, pid)
	vrt.Assert(err == nil && p != nil, "the PMT is read from the stream whatever the packetisation")
	if err == nil && p != nil {
		c06checkPMT(p, m)
	}
	vrt.Reach("end")
}
