package psi

import (
	"io"

	"github.com/Comcast/gots/v2"
	"github.com/Comcast/gots/v2/packet"
	"github.com/Comcast/gots/v2/zzverif/vrt"
)

// C07 — PAT decoding. Reference builder per ISO/IEC 13818-1 2.4.4.3.

type c07pat struct {
	n   int
	pn  []int
	pid []int
}

// c07section builds pointer_field(0) + program_association_section + stuff bytes of 0xFF.
func c07section(n, stuff int) ([]byte, c07pat) {
	b := make([]byte, 1+3+5+4*n+4+stuff)
	vrt.Bytes("sec", b)
	sl := 5 + 4*n + 4
	b[0] = 0
	b[1] = 0x00
	b[2] = b[2]&0xFC | byte(sl>>8)
	b[2] |= 0x80
	b[3] = byte(sl)
	ref := c07pat{n: n}
	for i := 0; i < n; i++ {
		o := 9 + 4*i
		ref.pn = append(ref.pn, int(b[o])<<8|int(b[o+1]))
		ref.pid = append(ref.pid, int(b[o+2]&0x1F)<<8|int(b[o+3]))
	}
	for i := 0; i < stuff; i++ {
		b[len(b)-1-i] = 0xFF
	}
	return b, ref
}

// expected PID for program number k: the PID of its last entry; ok=false if absent or k == 0
func (r c07pat) lookup(k int) (int, bool) {
	pid, ok := 0, false
	for i := 0; i < r.n; i++ {
		if r.pn[i] == k && k != 0 {
			pid, ok = r.pid[i], true
		}
	}
	return pid, ok
}

func (r c07pat) distinctPrograms() int {
	c := 0
	for i := 0; i < r.n; i++ {
		if r.pn[i] == 0 {
			continue
		}
		first := true
		for j := 0; j < i; j++ {
			if r.pn[j] == r.pn[i] {
				first = false
			}
		}
		if first {
			c++
		}
	}
	return c
}

func c07check(p PAT, ref c07pat) {
	vrt.Assert(p.NumPrograms() == ref.n, "NumPrograms equals the number of 4-byte entries")
	m := p.ProgramMap()
	vrt.Assert(len(m) == ref.distinctPrograms(), "the program map has one key per distinct non-zero program_number")
	for i := 0; i < ref.n; i++ {
		v, ok := m[ref.pn[i]]
		wv, wok := ref.lookup(ref.pn[i])
		vrt.Assert(ok == wok, "every non-zero program_number is a key, program_number 0 (network PID) is not")
		if wok {
			vrt.Assert(v == wv, "each program maps to the 13-bit PID of its entry")
		}
	}
	k := vrt.Int("anykey")
	if _, ok := m[k]; ok {
		_, wok := ref.lookup(k)
		vrt.Assert(wok, "the map contains no key that is not a program_number of the section")
	}
	pid, err := p.SPTSpmtPID()
	if ref.n == 1 && ref.pn[0] != 0 {
		vrt.Assert(err == nil && pid == ref.pid[0], "single-program accessor returns the PMT PID of the only program")
	} else {
		vrt.Assert(err != nil, "single-program accessor fails unless there is exactly one entry and it is a program")
	}
	// PMT classification of an arbitrary packet
	var pkt packet.Packet
	vrt.Bytes("pkt", pkt[:])
	ppid := int(pkt[1]&0x1F)<<8 | int(pkt[2])
	want := false
	for i := 0; i < ref.n; i++ {
		if v, ok := ref.lookup(ref.pn[i]); ok && v == ppid {
			want = true
		}
	}
	is, err := IsPMT(&pkt, p)
	vrt.Assert(err == nil && is == want, "a packet is a PMT packet exactly when its PID is a value of the program map")
}

func c07maxEntries() int {
	if vrt.Tier() == 0 {
		return 3
	}
	return 4
}

func VH_C07_Payload() {
	n := vrt.Choose("entries", 0, c07maxEntries())
	stuff := vrt.Choose("stuffing", 0, 2)
	b, ref := c07section(n, stuff)
	keep := append([]byte{}, b...)
	p, err := NewPAT(b)
	vrt.Assert(err == nil && p != nil, "a well-formed PAT payload is accepted")
	c07check(p, ref)
	for i := range b {
		vrt.Assert(b[i] == keep[i], "decoding does not modify the payload")
	}
	vrt.Reach("end")
}

// more entries: program numbers assumed non-zero and pairwise distinct except an optional leading network entry
func VH_C07_ManyEntries() {
	var n int
	if vrt.Tier() == 0 {
		n = []int{5, 8}[vrt.Choose("entries", 0, 1)]
	} else {
		n = vrt.Choose("entries", 5, 10)
	}
	b, ref := c07section(n, 1)
	for i := 1; i < n; i++ {
		vrt.Assume(ref.pn[i] != 0)
		for j := 0; j < i; j++ {
			vrt.Assume(ref.pn[i] != ref.pn[j])
		}
	}
	p, err := NewPAT(b)
	vrt.Assert(err == nil && p != nil, "a well-formed PAT payload is accepted")
	vrt.Assert(p.NumPrograms() == n, "NumPrograms equals the number of 4-byte entries")
	m := p.ProgramMap()
	want := n
	if ref.pn[0] == 0 {
		want = n - 1
	}
	vrt.Assert(len(m) == want, "one key per program; the network entry is not a program")
	for i := 0; i < n; i++ {
		v, ok := m[ref.pn[i]]
		vrt.Assert(ok == (ref.pn[i] != 0), "program numbers are keys")
		if ref.pn[i] != 0 {
			vrt.Assert(v == ref.pid[i], "each program maps to its 13-bit PID")
		}
	}
	_, err = p.SPTSpmtPID()
	vrt.Assert(err != nil, "not a single-program stream")
	vrt.Reach("end")
}

func c07packetFor(section []byte) packet.Packet {
	var pkt packet.Packet
	vrt.Bytes("hdr", pkt[:4])
	pkt[0] = 0x47
	pkt[1] = pkt[1]&0xE0 | 0x40
	pkt[2] = 0
	pkt[3] = pkt[3]&0xCF | 0x10
	for i := 4; i < 188; i++ {
		pkt[i] = 0xFF
	}
	copy(pkt[4:], section)
	return pkt
}

func VH_C07_Packet() {
	n := vrt.Choose("entries", 0, 2)
	b, ref := c07section(n, 0)
	pkt := c07packetFor(b)
	p, err := NewPAT(pkt[:])
	vrt.Assert(err == nil && p != nil, "a whole 188-byte PAT packet is accepted")
	c07check(p, ref)
	vrt.Reach("end")
}

type c07reader struct {
	s   []byte
	pos int
}

func (r *c07reader) Read(p []byte) (int, error) {
	if r.pos >= len(r.s) {
		return 0, io.EOF
	}
	n := copy(p, r.s[r.pos:])
	r.pos += n
	return n, nil
}

func VH_C07_Stream() {
	lead := vrt.Choose("leading", 0, 2)
	n := vrt.Choose("entries", 0, 2)
	havePAT := vrt.Choose("hasPAT", 0, 1) == 1
	var stream []byte
	for i := 0; i < lead; i++ {
		var o packet.Packet
		vrt.Bytes("other", o[:])
		vrt.Assume(o[1]&0x1F != 0 || o[2] != 0)
		stream = append(stream, o[:]...)
	}
	b, ref := c07section(n, 0)
	if havePAT {
		pkt := c07packetFor(b)
		stream = append(stream, pkt[:]...)
	}
	tail := vrt.Choose("tail", 0, 1) * 57
	t := make([]byte, tail)
	vrt.Bytes("tail", t)
	if !havePAT {
		stream = append(stream, t...)
	}
	p, err := ReadPAT(&c07reader{s: stream})
	if havePAT {
		vrt.Assert(err == nil && p != nil, "the PAT is found after any packets of other PIDs")
		c07check(p, ref)
	} else {
		vrt.Assert(p == nil && err == gots.ErrPATNotFound, "a stream that ends without a PID-0 packet yields ErrPATNotFound")
	}
	vrt.Reach("end")
}

func VH_C07_NilPAT() {
	var pkt packet.Packet
	vrt.Bytes("pkt", pkt[:])
	is, err := IsPMT(&pkt, nil)
	vrt.Assert(!is && err == gots.ErrNilPAT, "a nil PAT is an error")
	vrt.Reach("end")
}
