package psi

import "github.com/Comcast/gots/v2/zzverif/vrt"

// Reference builder for program map sections (ISO/IEC 13818-1 2.4.4.8), shared by C06, C14 and C20.
// Shapes (all lengths) are concrete; every value is symbolic.

type c06desc struct {
	tag  byte
	body []byte
}
type c06stream struct {
	typ   byte
	pid   int
	descs []c06desc
	raw   []byte // the stream's bytes inside the section
}
type c06pmt struct {
	version   byte
	cni       bool
	progDescs []c06desc
	streams   []c06stream
	section   []byte // table_id .. CRC
	head      []byte // first 12 bytes of the section + program descriptors
}

// shape: pd = body lengths of the program descriptors; st[i] = body lengths of the descriptors of stream i
type c06shape struct {
	pd []int
	st [][]int
}

func c06descBytes(tag string, lens []int) ([]byte, []c06desc) {
	var out []byte
	var ds []c06desc
	for _, n := range lens {
		d := make([]byte, 2+n)
		vrt.Bytes(tag, d)
		d[1] = byte(n)
		out = append(out, d...)
		ds = append(ds, c06desc{tag: d[0], body: d[2:]})
	}
	return out, ds
}

// c06section builds one well-formed TS_program_map_section with symbolic values.
func c06section(sh c06shape) c06pmt {
	var m c06pmt
	pdBytes, pds := c06descBytes("progdesc", sh.pd)
	m.progDescs = pds
	var body []byte
	for i := range sh.st {
		dBytes, ds := c06descBytes("esdesc", sh.st[i])
		e := make([]byte, 5)
		vrt.Bytes("es", e)
		e[3] = e[3]&0xF0 | byte(len(dBytes)>>8)
		e[4] = byte(len(dBytes))
		raw := append(e, dBytes...)
		m.streams = append(m.streams, c06stream{typ: e[0], pid: int(e[1]&0x1F)<<8 | int(e[2]), descs: ds, raw: raw})
		body = append(body, raw...)
	}
	hdr := make([]byte, 12)
	vrt.Bytes("pmthdr", hdr)
	sl := 9 + len(pdBytes) + len(body) + 4
	hdr[0] = 0x02
	hdr[1] = hdr[1]&0xFC | byte(sl>>8)
	hdr[2] = byte(sl)
	hdr[10] = hdr[10]&0xF0 | byte(len(pdBytes)>>8)
	hdr[11] = byte(len(pdBytes))
	m.version = hdr[5] >> 1 & 0x1F
	m.cni = hdr[5]&1 == 1
	crc := make([]byte, 4)
	vrt.Bytes("crc", crc)
	m.head = append(append([]byte{}, hdr...), pdBytes...)
	m.section = append(append(append([]byte{}, m.head...), body...), crc...)
	return m
}

// c06other builds a complete section of another table (table_id != 0x02, != 0xFF) with n body bytes.
func c06other(n int) []byte {
	s := make([]byte, 3+n)
	vrt.Bytes("othersec", s)
	vrt.Assume(s[0] != 0x02 && s[0] != 0xFF)
	s[1] = s[1] & 0xFC
	s[2] = byte(n)
	return s
}

// c06payload = pointer_field + filler + sections... + stuffing
func c06payload(ptr int, sections [][]byte, stuffing int) []byte {
	out := []byte{byte(ptr)}
	for i := 0; i < ptr; i++ {
		out = append(out, 0xFF)
	}
	for _, s := range sections {
		out = append(out, s...)
	}
	for i := 0; i < stuffing; i++ {
		out = append(out, 0xFF)
	}
	return out
}

func c06checkPMT(p PMT, m c06pmt) {
	vrt.Assert(p.VersionNumber() == m.version, "version_number")
	vrt.Assert(p.CurrentNextIndicator() == m.cni, "current_next_indicator")
	pids := p.Pids()
	es := p.ElementaryStreams()
	vrt.Assert(len(pids) == len(m.streams) && len(es) == len(m.streams), "exactly the announced elementary streams are reported")
	for i := 0; i < len(m.streams) && i < len(es) && i < len(pids); i++ {
		vrt.Assert(pids[i] == m.streams[i].pid, "PID list in section order")
		vrt.Assert(es[i].StreamType() == m.streams[i].typ, "stream_type of each stream")
		vrt.Assert(es[i].ElementaryPid() == m.streams[i].pid, "elementary PID of each stream")
		ds := es[i].Descriptors()
		vrt.Assert(len(ds) == len(m.streams[i].descs), "each stream reports exactly its descriptors")
		for j := 0; j < len(ds) && j < len(m.streams[i].descs); j++ {
			vrt.Assert(ds[j].Tag() == m.streams[i].descs[j].tag, "descriptor tags in order")
			pd := ds[j].(*pmtDescriptor)
			want := m.streams[i].descs[j].body
			vrt.Assert(len(pd.data) == len(want), "descriptor body length")
			for k := 0; k < len(want) && k < len(pd.data); k++ {
				vrt.Assert(pd.data[k] == want[k], "descriptor body bytes")
			}
		}
	}
}
