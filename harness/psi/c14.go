package psi

import (
	"github.com/Comcast/gots/v2/packet"
	"github.com/Comcast/gots/v2/zzverif/vrt"
)

// C14 — PMT filtering. ComputeCRC is replaced by an uninterpreted function (vrt.StubCRC);
// the CRC field must be UF(all preceding section bytes). That ComputeCRC is CRC-32/MPEG-2 is C13.

func c14shapes() []c06shape {
	s := []c06shape{
		{st: [][]int{{}}},
		{pd: []int{2}, st: [][]int{{0}, {3}}},
		{pd: []int{1}, st: [][]int{{}, {1, 2}, {}}},
	}
	if vrt.Tier() == 1 {
		s = append(s, c06shape{st: [][]int{{2}, {}, {0}, {1}}}, c06shape{pd: []int{0, 3}, st: [][]int{{4}, {1}}})
	}
	return s
}

// request patterns over k streams: index i<k = PID of stream i, k = a PID that is not in the PMT,
// k+1 = the PAT PID, k+2 = the PMT PID
func c14patterns(k int) [][]int {
	var out [][]int
	for mask := 1; mask < 1<<uint(k); mask++ {
		var p []int
		for i := 0; i < k; i++ {
			if mask&(1<<uint(i)) != 0 {
				p = append(p, i)
			}
		}
		out = append(out, p)
	}
	var rev []int
	for i := k - 1; i >= 0; i-- {
		rev = append(rev, i)
	}
	out = append(out, rev, []int{0, 0}, []int{k}, []int{k, k}, []int{k, 0}, []int{0, k}, []int{k + 1, 0}, []int{0, k + 2}, []int{k + 1, k + 2, k - 1})
	return out
}

func c14in(list []int, x int) bool {
	for _, v := range list {
		if v == x {
			return true
		}
	}
	return false
}

func VH_C14_Filter() {
	shapes := c14shapes()
	sh := shapes[vrt.Choose("shape", 0, len(shapes)-1)]
	k := len(sh.st)
	pats := c14patterns(k)
	pat := pats[vrt.Choose("request", 0, len(pats)-1)]
	ptr := vrt.Choose("pointer", 0, 1)
	carrier := vrt.Choose("carrier", 0, 3) // 0: one packet, payload stuffing; 1: one packet, adaptation-field stuffing; 2/3: two packets cut early/late
	m := c06section(sh)
	pmtPid := vrt.Int("pmtpid")
	vrt.Assume(pmtPid >= 0x10 && pmtPid < 0x1FFF)
	absent := vrt.Int("absentpid")
	vrt.Assume(absent > 0 && absent < 0x2000 && absent != pmtPid)
	for i := 0; i < k; i++ {
		vrt.Assume(m.streams[i].pid != 0 && m.streams[i].pid != pmtPid && m.streams[i].pid != absent)
		for j := 0; j < i; j++ {
			vrt.Assume(m.streams[i].pid != m.streams[j].pid)
		}
	}
	pidOf := func(ix int) int {
		switch {
		case ix < k:
			return m.streams[ix].pid
		case ix == k:
			return absent
		case ix == k+1:
			return 0
		}
		return pmtPid
	}
	var req []int
	missing, present := 0, 0
	for _, ix := range pat {
		req = append(req, pidOf(ix))
		if ix == k {
			missing++
		}
		if ix < k {
			present++
		}
	}
	pay := c06payload(ptr, [][]byte{m.section}, 0)
	var in []*packet.Packet
	switch carrier {
	case 0:
		p := c06carry(pmtPid, true, pay, true)
		in = append(in, &p)
	case 1:
		p := c06carry(pmtPid, true, pay, false)
		in = append(in, &p)
	default:
		cut := 5
		if carrier == 3 {
			cut = len(pay) - 3
		}
		p1 := c06carry(pmtPid, true, pay[:cut], false)
		p2 := c06carry(pmtPid, false, pay[cut:], true)
		in = append(in, &p1, &p2)
	}
	var keepIn []packet.Packet
	for _, p := range in {
		keepIn = append(keepIn, *p)
	}
	vrt.StubCRC(true)
	out, err := FilterPMTPacketsToPids(in, req)
	vrt.StubCRC(false)
	for i := range in {
		vrt.Assert(*in[i] == keepIn[i], "the input packets are not modified")
	}
	// error contract
	if missing == len(pat) {
		vrt.Assert(out == nil && err != nil, "no requested PID is in the PMT: no packets and an error")
		vrt.Reach("end")
		return
	}
	if missing > 0 {
		vrt.Assert(err != nil, "some requested PIDs are missing: packets plus an error")
	} else {
		vrt.Assert(err == nil, "every requested PID (ignoring PAT and PMT PIDs) is in the PMT: no error")
	}
	// expected section: program header + program descriptors + selected streams in original order + CRC
	sec := append([]byte{}, m.head...)
	for i := 0; i < k; i++ {
		if c14in(pat, i) {
			sec = append(sec, m.streams[i].raw...)
		}
	}
	sl := len(sec) - 3 + 4
	sec[1] = sec[1]&0xF0 | byte(sl>>8)
	sec[2] = byte(sl)
	crc := vrt.UF32("crc", sec)
	sec = append(sec, byte(crc>>24), byte(crc>>16), byte(crc>>8), byte(crc))
	want := c06payload(ptr, [][]byte{sec}, 0)
	// re-packetisation with the original headers
	pos := 0
	n := 0
	for i := range in {
		if pos >= len(want) {
			break
		}
		n++
		vrt.Assert(len(out) > i, "enough output packets for the filtered section")
		if len(out) <= i {
			break
		}
		hl := 4
		if keepIn[i][3]&0x20 != 0 {
			hl = 5 + int(keepIn[i][4])
		}
		for j := 0; j < hl; j++ {
			vrt.Assert(out[i][j] == keepIn[i][j], "output packets carry the original packet headers (incl. adaptation fields)")
		}
		for j := hl; j < 188; j++ {
			if pos < len(want) {
				vrt.Assert(out[i][j] == want[pos], "the concatenated payload is pointer_field + the filtered program map section with correct section_length and CRC_32")
				pos++
			} else {
				vrt.Assert(out[i][j] == 0xFF, "the rest is padded with 0xFF")
			}
		}
	}
	vrt.Assert(len(out) == n, "no packets beyond the ones needed")
	vrt.Reach("end")
}

func VH_C14_EmptyRequest() {
	m := c06section(c06shape{st: [][]int{{}}})
	pay := c06payload(0, [][]byte{m.section}, 0)
	p := c06carry(0x64, true, pay, true)
	in := []*packet.Packet{&p}
	out, err := FilterPMTPacketsToPids(in, nil)
	vrt.Assert(err == nil && len(out) == 1 && out[0] == in[0], "an empty PID list returns the input unchanged")
	out, err = FilterPMTPacketsToPids(nil, []int{1})
	vrt.Assert(out == nil && err == nil, "no packets in, no packets out")
	vrt.Reach("end")
}

func VH_C14_Remove() {
	shapes := c14shapes()
	sh := shapes[vrt.Choose("shape", 0, len(shapes)-1)]
	k := len(sh.st)
	mask := vrt.Choose("remove", 0, 1<<uint(k)-1)
	extra := vrt.Choose("alsoAbsent", 0, 1) == 1
	m := c06section(sh)
	for i := 0; i < k; i++ {
		for j := 0; j < i; j++ {
			vrt.Assume(m.streams[i].pid != m.streams[j].pid)
		}
	}
	absent := vrt.Int("absentpid")
	for i := 0; i < k; i++ {
		vrt.Assume(absent != m.streams[i].pid)
	}
	p, err := NewPMT(c06payload(0, [][]byte{m.section}, 1))
	vrt.Assert(err == nil && p != nil, "decodes")
	var rm []int
	if extra {
		rm = append(rm, absent)
	}
	var left c06pmt
	left.version, left.cni = m.version, m.cni
	for i := k - 1; i >= 0; i-- {
		if mask&(1<<uint(i)) != 0 {
			rm = append(rm, m.streams[i].pid)
		}
	}
	for i := 0; i < k; i++ {
		if mask&(1<<uint(i)) == 0 {
			left.streams = append(left.streams, m.streams[i])
		}
	}
	p.RemoveElementaryStreams(rm)
	c06checkPMT(p, left)
	for i := 0; i < k; i++ {
		vrt.Assert(p.PIDExists(m.streams[i].pid) == (mask&(1<<uint(i)) == 0), "PIDExists agrees with the stream list after removal")
	}
	vrt.Assert(!p.PIDExists(absent), "a PID that never was in the PMT does not exist")
	vrt.Reach("end")
}
