package adaptationfield

import (
	"github.com/Comcast/gots/v2/packet"
	"github.com/Comcast/gots/v2/zzverif/vrt"
)

// C05 — function-style accessors are total on any 188-byte array
func VH_C05_FunctionAccessors() {
	op := vrt.Choose("op", 0, 5)
	var p packet.Packet
	vrt.Bytes("p", p[:])
	orig := p
	switch op {
	case 0:
		_ = Length(&p)
		_ = IsDiscontinuous(&p)
		_ = IsRandomAccess(&p)
		_ = IsESHigherPriority(&p)
		_ = HasPCR(&p)
		_ = HasOPCR(&p)
		_ = HasSplicingPoint(&p)
		_ = HasTransportPrivateData(&p)
		_ = HasAdaptationFieldExtension(&p)
	case 1:
		_, _ = PCR(&p)
	case 2:
		_, _ = OPCR(&p)
	case 3:
		_, _ = SpliceCountdown(&p)
	case 4:
		_, _ = TransportPrivateData(&p)
	case 5:
		_, _ = EncoderBoundaryPoint(&p)
	}
	vrt.Assert(p == orig, "accessors never modify the packet")
	vrt.Reach("end")
}
