package adaptationfield

import (
	"github.com/Comcast/gots/v2"
	"github.com/Comcast/gots/v2/packet"
	"github.com/Comcast/gots/v2/zzverif/vrt"
)

// C03 — function-style accessors on an arbitrary well-formed packet with a non-empty adaptation
// field = reference parse (ISO/IEC 13818-1 2.4.3.4). Shape (presence flags, length of the
// private data) enumerated; adaptation_field_length and all other bytes symbolic.

func c03fLens() []int {
	if vrt.Tier() == 0 {
		return []int{0, 1, 4}
	}
	return []int{0, 1, 2, 4, 8, 24, 100}
}

func VH_C03_FunctionAccessors() {
	var p packet.Packet
	vrt.Bytes("p", p[:])
	p[5] = p[5]&0xE0 | byte(vrt.Choose("presence", 0, 31))
	vrt.Assume(p[3]&0x20 != 0 && p[4] >= 1 && p[4] <= 183)
	L := int(p[4])
	f := p[5]
	c := 6
	pcrPos := c
	if f&0x10 != 0 {
		c += 6
	}
	opcrPos := c
	if f&0x08 != 0 {
		c += 6
	}
	splicePos := c
	if f&0x04 != 0 {
		c++
	}
	tpdPos, tpdLen := c, 0
	if f&0x02 != 0 {
		ls := c03fLens()
		tpdLen = ls[vrt.Choose("tpdLen", 0, len(ls)-1)]
		p[c] = byte(tpdLen)
		c += 1 + tpdLen
	}
	if f&0x01 != 0 {
		c += 1 + int(p[c])
	}
	vrt.Assume(c <= 5+L)
	orig := p

	vrt.Assert(int(Length(&p)) == L, "Length")
	vrt.Assert(IsDiscontinuous(&p) == (f&0x80 != 0), "IsDiscontinuous")
	vrt.Assert(IsRandomAccess(&p) == (f&0x40 != 0), "IsRandomAccess")
	vrt.Assert(IsESHigherPriority(&p) == (f&0x20 != 0), "IsESHigherPriority")
	vrt.Assert(HasPCR(&p) == (f&0x10 != 0), "HasPCR")
	vrt.Assert(HasOPCR(&p) == (f&0x08 != 0), "HasOPCR")
	vrt.Assert(HasSplicingPoint(&p) == (f&0x04 != 0), "HasSplicingPoint")
	vrt.Assert(HasTransportPrivateData(&p) == (f&0x02 != 0), "HasTransportPrivateData")
	vrt.Assert(HasAdaptationFieldExtension(&p) == (f&0x01 != 0), "HasAdaptationFieldExtension")

	b, err := PCR(&p)
	if f&0x10 != 0 {
		ok := err == nil && len(b) == 6
		for i := 0; i < 6 && i < len(b); i++ {
			ok = ok && b[i] == orig[pcrPos+i]
		}
		vrt.Assert(ok, "PCR returns the six bytes of the PCR field")
	} else {
		vrt.Assert(err == gots.ErrNoPCR, "PCR of an absent field is an error")
	}
	b, err = OPCR(&p)
	if f&0x08 != 0 {
		ok := err == nil && len(b) == 6
		for i := 0; i < 6 && i < len(b); i++ {
			ok = ok && b[i] == orig[opcrPos+i]
		}
		vrt.Assert(ok, "OPCR returns the six bytes of the OPCR field")
	} else {
		vrt.Assert(err == gots.ErrNoOPCR, "OPCR of an absent field is an error")
	}
	cd, err := SpliceCountdown(&p)
	if f&0x04 != 0 {
		vrt.Assert(err == nil && cd == orig[splicePos], "SpliceCountdown returns the countdown byte")
	} else {
		vrt.Assert(err == gots.ErrNoSplicePoint, "SpliceCountdown of an absent field is an error")
	}
	d, err := TransportPrivateData(&p)
	if f&0x02 != 0 {
		ok := err == nil && len(d) == tpdLen
		for i := 0; i < tpdLen && i < len(d); i++ {
			ok = ok && d[i] == orig[tpdPos+1+i]
		}
		vrt.Assert(ok, "TransportPrivateData returns exactly the private data bytes")
		e, err := EncoderBoundaryPoint(&p)
		ok = err == nil && len(e) == tpdLen
		for i := 0; i < tpdLen && i < len(e); i++ {
			ok = ok && e[i] == orig[tpdPos+1+i]
		}
		vrt.Assert(ok, "EncoderBoundaryPoint returns the private data bytes")
	} else {
		vrt.Assert(err == gots.ErrNoPrivateTransportData, "TransportPrivateData of an absent field is an error")
		_, err = EncoderBoundaryPoint(&p)
		vrt.Assert(err == gots.ErrNoEBP, "EncoderBoundaryPoint without private data is an error")
	}
	vrt.Assert(p == orig, "accessors do not modify the packet")
	vrt.Reach("end")
}
