package packet

import (
	"github.com/Comcast/gots/v2"
	"github.com/Comcast/gots/v2/zzverif/vrt"
)

// C02 — header/payload partition, SetPayload, adaptation field creation, creation helpers.
// Adaptation-field shapes are the enumerated shapes of C03 (flags and both length bytes
// concrete, adaptation_field_length and all contents symbolic) plus "no field" and "length 0".

// c02wf returns a well-formed packet: kind 0 = no adaptation field, 1 = adaptation_field_length 0,
// 2 = non-empty field of an enumerated shape. cs = first byte after the non-stuffing header content.
func c02wf(name string) (Packet, int, c03m) {
	kind := vrt.Choose("afKind", 0, 2)
	switch kind {
	case 0:
		var p Packet
		vrt.Bytes(name, p[:])
		p[3] &^= 0x20
		return p, 4, c03m{}
	case 1:
		var p Packet
		vrt.Bytes(name, p[:])
		p[3] |= 0x20
		p[4] = 0
		return p, 5, c03m{}
	}
	p, m := c03wf(name)
	return p, m.end, m
}

func c02start(p *Packet) int {
	if p[3]&0x20 != 0 {
		return 5 + int(p[4])
	}
	return 4
}

// (P) header and payload partition the packet: every adaptation_field_length 0..183 (and no
// field) enumerated, adaptation_field_control and all 188 bytes symbolic
func VH_C02_Partition() {
	var p Packet
	vrt.Bytes("p", p[:])
	k := vrt.Choose("afLength", -1, 183)
	start := 4
	if k < 0 {
		p[3] &^= 0x20
	} else {
		p[3] |= 0x20
		p[4] = byte(k)
		start = 5 + k
	}
	vrt.Assume(p[3]&0x30 != 0)
	orig := p
	hasPay := p[3]&0x10 != 0
	h := Header(&p)
	vrt.Assert(len(h) == start, "the header is the 4 bytes plus the adaptation field when flagged")
	ok := true
	for i := 0; i < start && i < len(h); i++ {
		if h[i] != orig[i] {
			ok = false
		}
	}
	vrt.Assert(ok, "Header returns the leading part of the packet")
	pay, err := Payload(&p)
	cp, err2 := p.Payload()
	if hasPay {
		vrt.Assert(err == nil && len(pay) == 188-start, "the free-function Payload returns exactly the trailing part")
		vrt.Assert(err2 == nil && len(cp) == 188-start, "the method Payload returns exactly the trailing part")
		vrt.Assert(len(h)+len(pay) == 188, "header and payload partition the 188 bytes")
		ok = true
		for i := start; i < 188; i++ {
			if i-start < len(pay) && pay[i-start] != orig[i] {
				ok = false
			}
			if i-start < len(cp) && cp[i-start] != orig[i] {
				ok = false
			}
		}
		vrt.Assert(ok, "both payload accessors return the payload bytes")
		if start < 188 && len(cp) > 0 && len(pay) > 0 {
			cp[0] ^= 0xFF
			vrt.Assert(p == orig, "the method Payload is an independent copy")
			pay[0] ^= 0xFF
			vrt.Assert(p[start] == orig[start]^0xFF, "the free-function Payload aliases the packet")
		}
	} else {
		vrt.Assert(err == gots.ErrNoPayload, "a packet without the payload flag yields an error (free function)")
		vrt.Assert(err2 == gots.ErrNoPayload, "a packet without the payload flag yields an error (method)")
	}
	vrt.Reach("end")
}

// (SP) SetPayload
func VH_C02_SetPayload() {
	// thorough tier: the quick-tier adaptation-field shapes (12 flag sets x lengths {0,1,3} +
	// capacity fills) with 16 payload lengths instead of 8. The full thorough shape set (32 flag
	// sets x 6 lengths = 584 shapes) x 16 lengths = 9.4k jobs ran at 125 jobs/min and was abandoned.
	c03quickShapes = true
	p, cs, m := c02wf("p")
	c03quickShapes = false     // a package variable: native replays of other harnesses share the process
	vrt.Assume(p[3]&0x10 != 0) // carries payload
	hadAF := p[3]&0x20 != 0
	cap := 188 - cs
	// payload lengths: a boundary set around the capacity (thorough: more)
	var ns []int
	if vrt.Tier() == 0 {
		ns = []int{0, 1, cap - 1, cap, cap + 1, 183, 184, 200}
	} else {
		ns = []int{0, 1, 2, 7, 50, 100, cap - 2, cap - 1, cap, cap + 1, cap + 2, 182, 183, 184, 185, 200}
	}
	n := ns[vrt.Choose("payloadLen", 0, len(ns)-1)]
	if n < 0 {
		n = 0
	}
	data := make([]byte, n)
	vrt.Bytes("data", data)
	keep := append([]byte{}, data...)
	q := p
	cnt, err := q.SetPayload(data)
	k := n
	if k > cap {
		k = cap
	}
	vrt.Assert(err == nil && cnt == k, "SetPayload stores min(n, capacity) bytes and reports that count")
	// expected packet
	var e Packet
	e = p
	var Lnew int
	afAfter := hadAF
	if n < cap {
		afAfter = true
		Lnew = 183 - n
	} else if hadAF {
		Lnew = cs - 5
	}
	ok := true
	for i := 0; i < 188; i++ {
		var exp byte
		switch {
		case i < 3:
			exp = p[i]
		case i == 3:
			exp = p[3]
			if afAfter {
				exp |= 0x20
			}
		case !afAfter:
			exp = keep[i-4]
		case i == 4:
			exp = byte(Lnew)
		case i >= 5+Lnew:
			exp = keep[i-5-Lnew]
		case i == 5:
			if hadAF && m.L > 0 {
				exp = p[5]
			} else {
				exp = 0 // a flags byte that did not exist before carries no flags
			}
		case i < cs:
			exp = p[i] // optional fields untouched
		default:
			exp = 0xFF
		}
		e[i] = exp
		if q[i] != exp {
			ok = false
		}
		if i%47 == 46 || i == 187 {
			vrt.Assert(ok, "after SetPayload: PID/flags/counter and adaptation-field flags and fields preserved, gap stuffed with 0xFF, payload stored")
			ok = true
		}
	}
	back, err := q.Payload()
	okb := err == nil && len(back) == 188-c02start(&q)
	for i := 0; i < k && i < len(back); i++ {
		if back[i] != keep[i] {
			okb = false
		}
	}
	vrt.Assert(okb, "reading the payload back returns exactly the bytes stored")
	if k == n {
		vrt.Assert(len(back) == n, "a payload that fits is read back with its exact length")
	}
	same := true
	for i := range data {
		if data[i] != keep[i] {
			same = false
		}
	}
	vrt.Assert(same, "the caller's data is not modified")
	vrt.Reach("end")
}

func VH_C02_SetPayloadRefused() {
	p, _ := c03wf("p")
	p[3] = p[3]&0xCF | 0x20 // adaptation field only
	orig := p
	n := vrt.Choose("payloadLen", 0, 2)
	data := make([]byte, n)
	vrt.Bytes("data", data)
	cnt, err := p.SetPayload(data)
	vrt.Assert(err == gots.ErrNoPayload && cnt == 0, "SetPayload on an adaptation-field-only packet is refused with an error")
	vrt.Assert(p == orig, "and leaves the packet untouched")
	vrt.Reach("end")
}

// (AFC) SetAdaptationFieldControl creating a field
func VH_C02_CreateField() {
	var p Packet
	vrt.Bytes("p", p[:])
	p[3] = p[3]&0xCF | 0x10 // payload only
	orig := p
	which := vrt.Choose("afc", 2, 3)
	err := p.SetAdaptationFieldControl(AdaptationFieldControlOptions(which))
	vrt.Assert(err == nil, "creating an adaptation field succeeds")
	vrt.Assert(p[0] == orig[0] && p[1] == orig[1] && p[2] == orig[2] && p[3]&0xCF == orig[3]&0xCF, "other header bits unchanged")
	vrt.Assert(int(p.AdaptationFieldControl()) == which, "adaptation_field_control as requested")
	vrt.Assert(p[5] == 0, "the new field has no flags")
	if which == 2 {
		vrt.Assert(p[4] == 183, "an adaptation-field-only packet is filled by the field")
	} else {
		vrt.Assert(p[4] == 182, "with payload the new field leaves one payload byte")
	}
	ok := true
	for i := 6; i < 5+int(p[4]); i++ {
		if p[i] != 0xFF {
			ok = false
		}
	}
	vrt.Assert(ok, "the new field is stuffed with 0xFF (well-formed)")
	vrt.Reach("end")
}

// (CR) creation helpers
func VH_C02_Create() {
	pid := vrt.Int("pid")
	vrt.Assume(pid >= 0 && pid < 8192)
	cc := vrt.Byte("cc") & 0x0F
	pusi, hasPay := vrt.Bool("pusi"), vrt.Bool("hasPay")
	t := CreateTestPacket(pid, cc, pusi, hasPay)
	vrt.Assert(t[0] == 0x47 && t.PID() == pid && t.ContinuityCounter() == int(cc), "CreateTestPacket: sync byte, PID and counter as requested")
	vrt.Assert(t.HasPayload() == hasPay, "CreateTestPacket: payload flag as requested")
	if hasPay {
		// a payload_unit_start_indicator without payload is meaningless and is not produced
		vrt.Assert(t.PayloadUnitStartIndicator() == pusi, "CreateTestPacket: PUSI as requested")
	}
	d := CreateDCPacket(pid, cc)
	vrt.Assert(d[0] == 0x47 && d.PID() == pid && d.ContinuityCounter() == int(cc) && d.HasPayload() && d[5]&0x80 != 0, "CreateDCPacket: sync, PID, counter, payload flag, discontinuity indicator")
	c := Create(pid)
	vrt.Assert(c[0] == 0x47 && c.PID() == pid && c[3] == 0, "Create: sync byte and PID, nothing else")
	c2 := Create(pid, WithHasPayloadFlag, WithPUSI, WithHasAdaptationFieldFlag)
	vrt.Assert(c2.PID() == pid && c2.HasPayload() && c2.PayloadUnitStartIndicator() && c2.HasAdaptationField(), "Create with options: flags as requested")
	vrt.Reach("end")
}

func VH_C02_CreateWithPayload() {
	pid := vrt.Int("pid")
	vrt.Assume(pid >= 0 && pid < 8192)
	cc := vrt.Byte("cc") & 0x0F
	var ns []int
	if vrt.Tier() == 0 {
		ns = []int{0, 1, 100, 183, 184, 185, 190}
	} else {
		ns = []int{0, 1, 2, 50, 100, 150, 182, 183, 184, 185, 186, 190}
	}
	n := ns[vrt.Choose("payloadLen", 0, len(ns)-1)]
	pay := make([]byte, n)
	vrt.Bytes("pay", pay)
	p := CreatePacketWithPayload(pid, cc, pay)
	vrt.Assert(p[0] == 0x47 && p.PID() == pid && p.ContinuityCounter() == int(cc) && p.HasPayload() && !p.HasAdaptationField(), "CreatePacketWithPayload: sync, PID, counter, payload-only")
	got, err := Payload(p)
	ok := err == nil && len(got) == 184
	for i := 0; i < n && i < 184 && i < len(got); i++ {
		if got[i] != pay[i] {
			ok = false
		}
	}
	vrt.Assert(ok, "CreatePacketWithPayload: the payload starts with the requested bytes")
	var q Packet
	vrt.Bytes("q", q[:])
	q[3] = q[3]&0xCF | 0x10
	orig := q
	w := SetPayload(&q, pay)
	k := n
	if k > 184 {
		k = 184
	}
	ok = w == k
	for i := 0; i < 188; i++ {
		if i >= 4 && i-4 < k {
			if q[i] != pay[i-4] {
				ok = false
			}
		} else if q[i] != orig[i] {
			ok = false
		}
	}
	vrt.Assert(ok, "create.SetPayload copies min(n, room) bytes to the payload position and changes nothing else")
	vrt.Reach("end")
}
