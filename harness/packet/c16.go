package packet

import (
	"errors"
	"io"

	"github.com/Comcast/gots/v2"
	"github.com/Comcast/gots/v2/zzverif/vrt"
)

// C16 — Sync. In-memory PeekScanner with the bufio.Reader contract (short Peek returns
// the available bytes and io.EOF; UnreadByte only directly after a ReadByte).

var c16errUnread = errors.New("c16: invalid use of UnreadByte")

type c16rd struct {
	s         []byte
	pos       int
	canUnread bool
}

func (r *c16rd) ReadByte() (byte, error) {
	if r.pos >= len(r.s) {
		r.canUnread = false
		return 0, io.EOF
	}
	b := r.s[r.pos]
	r.pos++
	r.canUnread = true
	return b, nil
}

func (r *c16rd) UnreadByte() error {
	if !r.canUnread {
		return c16errUnread
	}
	r.pos--
	r.canUnread = false
	return nil
}

func (r *c16rd) Peek(n int) ([]byte, error) {
	r.canUnread = false
	if r.pos+n > len(r.s) {
		return r.s[r.pos:], io.EOF
	}
	return r.s[r.pos : r.pos+n], nil
}

func c16plausible(s []byte, i int) bool {
	if i+4 > len(s) || s[i] != 0x47 {
		return false
	}
	afc := s[i+3] >> 4 & 3
	pid := int(s[i+1]&0x1F)<<8 | int(s[i+2])
	return afc != 0 && (pid < 4 || pid > 15)
}

func c16bound() int {
	if vrt.Tier() == 0 {
		return 9
	}
	return 13
}

func VH_C16_Sync() {
	n := vrt.Choose("len", 0, c16bound())
	s := make([]byte, n)
	vrt.Bytes("s", s)
	want := -1
	for i := n - 1; i >= 0; i-- {
		if c16plausible(s, i) {
			want = i
		}
	}
	r := &c16rd{s: s}
	off, err := Sync(r)
	if want >= 0 {
		vrt.Assert(err == nil, "a plausible header exists: no error")
		vrt.Assert(off == int64(want), "Sync returns the offset of the first plausible packet header")
		vrt.Assert(r.pos == want, "the reader is left positioned exactly at the sync byte")
		b, e := r.ReadByte()
		vrt.Assert(e == nil && b == 0x47, "the next read returns the sync byte of the packet")
	} else {
		vrt.Assert(err == gots.ErrSyncByteNotFound, "no plausible header before the end of the stream: ErrSyncByteNotFound")
	}
	vrt.Reach("end")
}

// IsSynced on a 4-byte window: exactly the plausibility predicate; shorter input is the reader's error.
func VH_C16_IsSynced() {
	n := vrt.Choose("len", 0, 6)
	s := make([]byte, n)
	vrt.Bytes("s", s)
	r := &c16rd{s: s}
	ok, err := IsSynced(r)
	if n >= 4 {
		vrt.Assert(err == nil && ok == c16plausible(s, 0), "IsSynced = sync byte, AFC not 00, PID not in 0x0004-0x000F")
	} else {
		vrt.Assert(!ok && err == io.EOF, "a header cut by the end of the stream is not synced")
	}
	vrt.Assert(r.pos == 0, "IsSynced does not advance the reader")
	vrt.Reach("end")
}
