package packet

import (
	"github.com/Comcast/gots/v2"
	"github.com/Comcast/gots/v2/zzverif/vrt"
)

// C03 — the adaptation field stays a faithful ISO 13818-1 encoding under any edit history.
// Decided by induction on the history: every operation is applied ONCE to an ARBITRARY
// well-formed packet (flags, adaptation_field_length 1..183, both length bytes and all 188
// bytes symbolic) and the result is compared with a reference model; well-formedness is
// re-established, so the statement holds after histories of any length.

// c03m is the reference parse of the adaptation field of a packet (ISO/IEC 13818-1 2.4.3.4).
type c03m struct {
	L      int // adaptation_field_length
	flags  byte
	opcr   int // start of OPCR (== end of PCR)
	splice int // start of splice_countdown
	tpd    int // start of transport_private_data_length
	tpdLen int
	ext    int // start of adaptation_field_extension_length
	extLen int
	end    int // end of the non-stuffing content
}

func c03parse(p *Packet) c03m {
	var m c03m
	m.L = int(p[4])
	m.flags = p[5]
	c := 6
	if m.flags&0x10 != 0 {
		c += 6
	}
	m.opcr = c
	if m.flags&0x08 != 0 {
		c += 6
	}
	m.splice = c
	if m.flags&0x04 != 0 {
		c++
	}
	m.tpd = c
	if m.flags&0x02 != 0 {
		vrt.Assume(c < 188)
		m.tpdLen = int(p[c])
		c += 1 + m.tpdLen
	}
	m.ext = c
	if m.flags&0x01 != 0 {
		vrt.Assume(c < 188)
		m.extLen = int(p[c])
		c += 1 + m.extLen
	}
	m.end = c
	return m
}

// lengths of the variable-length fields that are enumerated (part of the stated bound)
// c03quickShapes makes the shape enumeration of c03wf the quick-tier one in either tier (used by
// the C02 SetPayload harness, whose thorough tier multiplies shapes by 16 payload lengths)
var c03quickShapes bool

func c03lengths() []int {
	if vrt.Tier() == 0 || c03quickShapes {
		return []int{0, 1, 3}
	}
	return []int{0, 1, 2, 3, 8, 24}
}

// presence-flag combinations: all 32 in the thorough tier, a covering subset in the quick tier
func c03presence() byte {
	if vrt.Tier() == 1 && !c03quickShapes {
		return byte(vrt.Choose("presence", 0, 31))
	}
	return []byte{0x00, 0x01, 0x02, 0x04, 0x08, 0x10, 0x03, 0x1F, 0x12, 0x0B, 0x1C, 0x15}[vrt.Choose("presence", 0, 11)]
}

// c03wf returns an arbitrary well-formed packet with a non-empty adaptation field and its parse.
// The SHAPE of the field is enumerated (vrt.Choose): the five presence flags and the two
// length bytes, so that every field offset is concrete; adaptation_field_length (1..183), the
// three indicator bits and all other bytes are symbolic.
func c03wf(name string) (Packet, c03m) {
	presence := c03presence()
	ls := c03lengths()
	// the last variable-length field present may also be sized so that the content ends at
	// byte 182, 187 or 188 (the capacity boundaries of a full adaptation-field-only packet)
	tl, el := 0, 0
	if presence&0x02 != 0 {
		if presence&0x01 == 0 {
			tl = c03pick("tpdLen", ls, true)
		} else {
			tl = c03pick("tpdLen", ls, false)
		}
	}
	if presence&0x01 != 0 {
		el = c03pick("extLen", ls, true)
	}
	return c03wfShape(name, presence, tl, el)
}

// c03pick chooses a length from ls, or (withFills) one of the codes -182, -187, -188 meaning
// "size the field so that the content ends at that byte"
func c03pick(name string, ls []int, withFills bool) int {
	fills := []int{-182, -187, -188}
	n := len(ls)
	if withFills {
		n += len(fills)
	}
	k := vrt.Choose(name, 0, n-1)
	if k < len(ls) {
		return ls[k]
	}
	return fills[k-len(ls)]
}

func c03wfShape(name string, presence byte, tl, el int) (Packet, c03m) {
	var p Packet
	vrt.Bytes(name, p[:])
	p[5] = p[5]&0xE0 | presence&0x1F
	c := 6
	if p[5]&0x10 != 0 {
		c += 6
	}
	if p[5]&0x08 != 0 {
		c += 6
	}
	if p[5]&0x04 != 0 {
		c++
	}
	if p[5]&0x02 != 0 {
		n := tl
		if n < 0 {
			n = -n - (c + 1)
		}
		p[c] = byte(n)
		c += 1 + n
	}
	if p[5]&0x01 != 0 {
		n := el
		if n < 0 {
			n = -n - (c + 1)
		}
		p[c] = byte(n)
	}
	vrt.Assume(p[3]&0x20 != 0)
	vrt.Assume(p[4] >= 1 && p[4] <= 183)
	m := c03parse(&p)
	vrt.Assume(m.end <= 5+m.L)
	for i := 6; i < 188; i++ {
		if i >= m.end && i < 5+m.L {
			vrt.Assume(p[i] == 0xFF)
		}
	}
	return p, m
}

// c03assertWF re-checks well-formedness of a result (same definition, as assertions; one
// obligation per 16-byte region so that all of them share one path condition)
func c03assertWF(q *Packet, msg string) {
	vrt.Assert(q[3]&0x20 != 0 && q[4] >= 1 && q[4] <= 183, msg)
	L := int(q[4])
	f := q[5]
	c := 6
	if f&0x10 != 0 {
		c += 6
	}
	if f&0x08 != 0 {
		c += 6
	}
	if f&0x04 != 0 {
		c++
	}
	ok := true
	if f&0x02 != 0 {
		if c < 5+L && c < 188 {
			c += 1 + int(q[c])
		} else {
			ok = false
		}
	}
	if ok && f&0x01 != 0 {
		if c < 5+L && c < 188 {
			c += 1 + int(q[c])
		} else {
			ok = false
		}
	}
	ok = ok && c <= 5+L
	vrt.Assert(ok, msg)
	good := true
	for i := 6; i < 188; i++ {
		if ok && i >= c && i < 5+L && q[i] != 0xFF {
			good = false
		}
		if i%16 == 15 || i == 187 {
			vrt.Assert(good, msg)
			good = true
		}
	}
}

func c03unchanged(p, q *Packet, msg string) {
	vrt.Assert(*p == *q, msg)
}

// expected bytes after inserting k bytes at pos (content [pos,end) moves right, new bytes free)
// or removing k bytes at pos (content [pos+k,end) moves left, the gap is stuffed)
func c03shift(p, q *Packet, m c03m, pos, k int, insert bool, flagMask byte, flagSet bool, fresh int, msg string) {
	const group = 47
	ok := true
	for i := 0; i < 188; i++ {
		var exp byte
		constrained := true
		switch {
		case i == 5:
			if flagSet {
				exp = p[5] | flagMask
			} else {
				exp = p[5] &^ flagMask
			}
		case i < 5 || i >= 5+m.L || i < pos:
			exp = p[i]
		case insert:
			if i < pos+k {
				if fresh >= 0 {
					exp = byte(fresh)
				} else {
					constrained = false // a freshly created PCR/OPCR/countdown is not yet set
				}
			} else if i < m.end+k {
				exp = p[i-k]
			} else {
				exp = 0xFF
			}
		default:
			if i < m.end-k {
				exp = p[i+k]
			} else {
				exp = 0xFF
			}
		}
		if constrained && q[i] != exp {
			ok = false
		}
		if i%group == group-1 || i == 187 {
			// one obligation per 16-byte region (the regions are decided in parallel)
			vrt.Assert(ok, msg)
			ok = true
		}
	}
}

type c03toggle struct {
	mask  byte
	k     int // field size when fixed
	fresh int // value of a freshly created field byte, -1 = unconstrained
	which int
}

func c03doToggle(af *AdaptationField, which int, v bool) error {
	switch which {
	case 0:
		return af.SetHasPCR(v)
	case 1:
		return af.SetHasOPCR(v)
	case 2:
		return af.SetHasSplicingPoint(v)
	case 3:
		return af.SetHasTransportPrivateData(v)
	}
	return af.SetHasAdaptationFieldExtension(v)
}

func c03toggleHarness(which int) {
	p, m := c03wf("p")
	q := p
	v := vrt.Choose("value", 0, 1) == 1
	mask := []byte{0x10, 0x08, 0x04, 0x02, 0x01}[which]
	pos := []int{6, m.opcr, m.splice, m.tpd, m.ext}[which]
	had := m.flags&mask != 0
	af, err := q.AdaptationField()
	vrt.Assert(err == nil && af != nil, "the packet has an adaptation field")
	err = c03doToggle(af, which, v)
	switch {
	case v == had:
		vrt.Assert(err == nil, "a call whose result fits never fails (no change)")
		c03unchanged(&p, &q, "setting a presence flag to its current value changes nothing")
	case v: // create
		k := []int{6, 6, 1, 1, 1}[which]
		fits := m.end+k <= 5+m.L
		vrt.Assert((err == nil) == fits, "creating a field fails exactly when the content would exceed adaptation_field_length")
		if fits {
			fresh := -1
			if which >= 3 {
				fresh = 0 // a freshly created private-data / extension field is empty
			}
			c03shift(&p, &q, m, pos, k, true, mask, true, fresh, "after creating a field: flag set, later fields shifted right, rest stuffed, header/length/payload untouched")
			c03assertWF(&q, "the packet stays well-formed")
		} else {
			c03unchanged(&p, &q, "a call that cannot be honoured leaves the packet unchanged")
		}
	default: // remove
		k := []int{6, 6, 1, 1 + m.tpdLen, 1 + m.extLen}[which]
		vrt.Assert(err == nil, "removing a field never fails")
		c03shift(&p, &q, m, pos, k, false, mask, false, -1, "after removing a field: flag cleared, later fields shifted left, gap stuffed with 0xFF, header/length/payload untouched")
		c03assertWF(&q, "the packet stays well-formed")
	}
	vrt.Reach("end")
}

func VH_C03_SetHasPCR()                      { c03toggleHarness(0) }
func VH_C03_SetHasOPCR()                     { c03toggleHarness(1) }
func VH_C03_SetHasSplicingPoint()            { c03toggleHarness(2) }
func VH_C03_SetHasTransportPrivateData()     { c03toggleHarness(3) }
func VH_C03_SetHasAdaptationFieldExtension() { c03toggleHarness(4) }

func VH_C03_Indicators() {
	p, _ := c03wf("p")
	v := vrt.Bool("value")
	for which, mask := range []byte{0x80, 0x40, 0x20} {
		q := p
		af, _ := q.AdaptationField()
		var err error
		switch which {
		case 0:
			err = af.SetDiscontinuity(v)
		case 1:
			err = af.SetRandomAccess(v)
		default:
			err = af.SetElementaryStreamPriority(v)
		}
		vrt.Assert(err == nil, "indicator setters never fail on a non-empty adaptation field")
		f := p[5] &^ mask
		if v {
			f |= mask
		}
		c03patched(&p, &q, 5, 6, []byte{f}, "an indicator setter changes exactly its flag bit")
		var g bool
		switch which {
		case 0:
			g, err = af.Discontinuity()
		case 1:
			g, err = af.RandomAccess()
		default:
			g, err = af.ElementaryStreamPriority()
		}
		vrt.Assert(err == nil && g == v, "the indicator getter returns the value set")
	}
	vrt.Reach("end")
}

// c03patched asserts q == p except for the bytes [lo,hi), which must equal want (one obligation)
func c03patched(p, q *Packet, lo, hi int, want []byte, msg string) {
	ok := true
	for i := 0; i < 188; i++ {
		if i >= lo && i < hi {
			if q[i] != want[i-lo] {
				ok = false
			}
		} else if q[i] != p[i] {
			ok = false
		}
	}
	vrt.Assert(ok, msg)
}

// value setters: the bytes written are those of the real codec (whose exactness and round trip
// for every value is property C04) at the position of the reference parse; nothing else changes.
func VH_C03_Values() {
	p, m := c03wf("p")
	pcr := vrt.Uint64("pcr")
	vrt.Assume(pcr < (1<<33)*300)
	var ref [6]byte
	gots.InsertPCR(ref[:], pcr)
	// SetPCR
	q := p
	af, _ := q.AdaptationField()
	err := af.SetPCR(pcr)
	if m.flags&0x10 != 0 {
		vrt.Assert(err == nil, "SetPCR succeeds on a present field")
		c03patched(&p, &q, 6, 12, ref[:], "SetPCR writes the encoding of the value at the PCR position and changes nothing else")
		g, e := af.PCR()
		vrt.Assert(e == nil && g == gots.ExtractPCR(q[6:12]), "PCR() decodes the six bytes at the PCR position")
	} else {
		vrt.Assert(err == gots.ErrNoPCR, "a value for an absent PCR is an error")
		c03unchanged(&p, &q, "a call that cannot be honoured leaves the packet unchanged")
		_, e := af.PCR()
		vrt.Assert(e == gots.ErrNoPCR, "PCR() of an absent field is an error")
	}
	// SetOPCR
	q = p
	af, _ = q.AdaptationField()
	err = af.SetOPCR(pcr)
	if m.flags&0x08 != 0 {
		vrt.Assert(err == nil, "SetOPCR succeeds on a present field")
		c03patched(&p, &q, m.opcr, m.opcr+6, ref[:], "SetOPCR writes the encoding of the value at the OPCR position and changes nothing else")
		g, e := af.OPCR()
		vrt.Assert(e == nil && g == gots.ExtractPCR(q[m.opcr:m.opcr+6]), "OPCR() decodes the six bytes at the OPCR position")
	} else {
		vrt.Assert(err == gots.ErrNoOPCR, "a value for an absent OPCR is an error")
		c03unchanged(&p, &q, "a call that cannot be honoured leaves the packet unchanged")
		_, e := af.OPCR()
		vrt.Assert(e == gots.ErrNoOPCR, "OPCR() of an absent field is an error")
	}
	// SetSpliceCountdown
	q = p
	af, _ = q.AdaptationField()
	cd := vrt.Byte("countdown")
	err = af.SetSpliceCountdown(cd)
	if m.flags&0x04 != 0 {
		vrt.Assert(err == nil, "SetSpliceCountdown succeeds on a present field")
		c03patched(&p, &q, m.splice, m.splice+1, []byte{cd}, "SetSpliceCountdown writes the byte at the countdown position and changes nothing else")
		g, e := af.SpliceCountdown()
		vrt.Assert(e == nil && g == int(int8(cd)), "SpliceCountdown() returns the (two's complement) value set")
	} else {
		vrt.Assert(err == gots.ErrNoSplicePoint, "a value for an absent splice countdown is an error")
		c03unchanged(&p, &q, "a call that cannot be honoured leaves the packet unchanged")
		_, e := af.SpliceCountdown()
		vrt.Assert(e == gots.ErrNoSplicePoint, "SpliceCountdown() of an absent field is an error")
	}
	vrt.Reach("end")
}

// getters of the method API on an arbitrary well-formed packet = reference parse
func VH_C03_Getters() {
	p, m := c03wf("p")
	orig := p
	af, _ := p.AdaptationField()
	vrt.Assert(af.Length() == m.L, "Length")
	h, e := af.HasPCR()
	vrt.Assert(e == nil && h == (m.flags&0x10 != 0), "HasPCR")
	h, e = af.HasOPCR()
	vrt.Assert(e == nil && h == (m.flags&0x08 != 0), "HasOPCR")
	h, e = af.HasSplicingPoint()
	vrt.Assert(e == nil && h == (m.flags&0x04 != 0), "HasSplicingPoint")
	h, e = af.HasTransportPrivateData()
	vrt.Assert(e == nil && h == (m.flags&0x02 != 0), "HasTransportPrivateData")
	h, e = af.HasAdaptationFieldExtension()
	vrt.Assert(e == nil && h == (m.flags&0x01 != 0), "HasAdaptationFieldExtension")
	d, e := af.TransportPrivateData()
	if m.flags&0x02 != 0 {
		// O2: the method getter returns the field including its length byte
		vrt.Assert(e == nil && len(d) == 1+m.tpdLen, "TransportPrivateData() returns the field (length byte + data)")
		for i := 0; i < len(d) && i < 9; i++ {
			vrt.Assert(d[i] == orig[m.tpd+i], "TransportPrivateData() bytes")
		}
	} else {
		vrt.Assert(e == gots.ErrNoPrivateTransportData, "TransportPrivateData() of an absent field is an error")
	}
	x, e := af.AdaptationFieldExtension()
	if m.flags&0x01 != 0 {
		vrt.Assert(e == nil && len(x) == 1+m.extLen, "AdaptationFieldExtension() returns the field (length byte + data)")
		for i := 0; i < len(x) && i < 9; i++ {
			vrt.Assert(x[i] == orig[m.ext+i], "AdaptationFieldExtension() bytes")
		}
	} else {
		vrt.Assert(e == gots.ErrNoAdaptationFieldExtension, "AdaptationFieldExtension() of an absent field is an error")
	}
	vrt.Assert(p == orig, "getters do not modify the packet")
	vrt.Reach("end")
}

// base of the induction: freshly created adaptation fields are well-formed
func VH_C03_Base() {
	af := NewAdaptationField()
	p := (*Packet)(af)
	c03assertWF(p, "NewAdaptationField() is well-formed")
	vrt.Assert(p[4] == 183 && p[5] == 0, "NewAdaptationField(): length 183, no flags")
	var q Packet
	vrt.Bytes("q", q[:])
	q[3] = q[3]&0xCF | 0x10
	orig := q
	err := q.SetAdaptationFieldControl(AdaptationFieldFlag)
	vrt.Assert(err == nil, "switching to adaptation-field-only succeeds")
	c03assertWF(&q, "a field created by SetAdaptationFieldControl is well-formed")
	vrt.Assert(q[0] == orig[0] && q[1] == orig[1] && q[2] == orig[2] && q[3]&0xCF == orig[3]&0xCF, "other header bits unchanged")
	vrt.Assert(q[5] == 0, "created with empty flags")
	vrt.Reach("end")
}

func c03dataLens() []int {
	if vrt.Tier() == 0 {
		return []int{0, 1, 2, 5}
	}
	return []int{0, 1, 2, 3, 5, 8, 24}
}

// c03replace: expected bytes after replacing the m data bytes of the variable-length field whose
// length byte is at pos by data (later content shifts by len(data)-m, rest stuffed)
func c03replace(p, q *Packet, m c03m, pos, old int, data []byte, msg string) {
	n := len(data)
	delta := n - old
	ok := true
	for i := 0; i < 188; i++ {
		var exp byte
		switch {
		case i < pos || i >= 5+m.L:
			exp = p[i]
		case i == pos:
			exp = byte(n)
		case i < pos+1+n:
			exp = data[i-pos-1]
		case i < m.end+delta:
			exp = p[i-delta]
		default:
			exp = 0xFF
		}
		if q[i] != exp {
			ok = false
		}
		if i%47 == 46 || i == 187 {
			vrt.Assert(ok, msg)
			ok = true
		}
	}
}

func c03dataHarness(ext bool) {
	p, m := c03wf("p")
	ls := c03dataLens()
	k := vrt.Choose("dataLen", 0, len(ls)+1)
	present, pos, old := m.flags&0x02 != 0, m.tpd, m.tpdLen
	if ext {
		present, pos, old = m.flags&0x01 != 0, m.ext, m.extLen
	}
	var n int
	switch {
	case k < len(ls):
		n = ls[k]
	case k == len(ls):
		n = 188 - m.end + old // exactly fills a 188-byte packet
	default:
		n = 188 - m.end + old + 1 // one byte too many for any adaptation_field_length
	}
	if n < 0 || n > 255 {
		n = 0
	}
	data := make([]byte, n)
	vrt.Bytes("data", data)
	keep := append([]byte{}, data...)
	q := p
	af, _ := q.AdaptationField()
	var err error
	if ext {
		err = af.SetAdaptationFieldExtension(data)
	} else {
		err = af.SetTransportPrivateData(data)
	}
	if !present {
		if ext {
			vrt.Assert(err == gots.ErrNoAdaptationFieldExtension, "data for an absent extension is an error")
		} else {
			vrt.Assert(err == gots.ErrNoPrivateTransportData, "data for absent private data is an error")
		}
		c03unchanged(&p, &q, "a call that cannot be honoured leaves the packet unchanged")
	} else {
		fits := m.end+n-old <= 5+m.L
		vrt.Assert((err == nil) == fits, "setting field data fails exactly when the content would exceed adaptation_field_length")
		if fits {
			c03replace(&p, &q, m, pos, old, keep, "after setting field data: length byte and data written, later fields shifted, rest stuffed, header/length/payload untouched")
			c03assertWF(&q, "the packet stays well-formed")
			var g []byte
			var e error
			if ext {
				g, e = af.AdaptationFieldExtension()
			} else {
				g, e = af.TransportPrivateData()
			}
			// O2: the method getter returns the field including its length byte
			vrt.Assert(e == nil && len(g) == n+1 && int(g[0]) == n, "the getter returns the field that was set (length byte + data)")
			okData := true
			for i := 0; i < n && i+1 < len(g); i++ {
				if g[i+1] != keep[i] {
					okData = false
				}
			}
			vrt.Assert(okData, "the getter returns the data that was set")
		} else {
			c03unchanged(&p, &q, "a call that cannot be honoured leaves the packet unchanged")
		}
	}
	for i := range data {
		vrt.Assert(data[i] == keep[i], "the caller's data is not modified")
	}
	vrt.Reach("end")
}

func VH_C03_SetTransportPrivateData()     { c03dataHarness(false) }
func VH_C03_SetAdaptationFieldExtension() { c03dataHarness(true) }

// SetAdaptationField copies the whole adaptation field of another well-formed packet: flags and
// every optional field of the source, the destination's adaptation_field_length, header and
// payload are kept, the rest is stuffing; refused (unchanged) when the source content does not fit.
func VH_C03_SetAdaptationField() {
	// destination: three shapes (empty, PCR only, both variable-length fields); source: every shape
	var dst Packet
	var dm c03m
	switch vrt.Choose("dstShape", 0, 2) {
	case 0:
		dst, dm = c03wfShape("dst", 0x00, 0, 0)
	case 1:
		dst, dm = c03wfShape("dst", 0x10, 0, 0)
	default:
		dst, dm = c03wfShape("dst", 0x03, 1, 2)
	}
	// the destination's adaptation_field_length is split into two overlapping ranges whose bounds
	// are visible to the executor's interval domain (1..128 and 56..183): together all of 1..183
	lv := vrt.Byte("dstL") & 0x7F
	if vrt.Choose("dstLrange", 0, 1) == 0 {
		vrt.Assume(dst[4] == lv+1)
		dst[4] = lv + 1
	} else {
		vrt.Assume(dst[4] == lv+56)
		dst[4] = lv + 56
	}
	dm.L = int(dst[4])
	var src Packet
	var sm c03m
	{
		// quick: ten source shapes; thorough: 24. (Every shape of c03wf x 6 destinations = 3500
		// jobs at up to 200 s of solver time each was tried in the thorough tier and abandoned.)
		type shape struct {
			f      byte
			tl, el int
		}
		shapes := []shape{{0x00, 0, 0}, {0x10, 0, 0}, {0x1C, 0, 0}, {0x02, 3, 0}, {0x02, -188, 0}, {0x01, 0, 1}, {0x03, 1, 3}, {0x1F, 3, 0}, {0x1F, 0, -187}, {0x0B, 1, -182}}
		if vrt.Tier() == 1 {
			shapes = append(shapes, shape{0x08, 0, 0}, shape{0x04, 0, 0}, shape{0x18, 0, 0}, shape{0x14, 0, 0}, shape{0x02, 0, 0}, shape{0x02, 24, 0}, shape{0x01, 0, 0}, shape{0x01, 0, 8},
				shape{0x03, 0, 0}, shape{0x07, 2, 1}, shape{0x13, 8, 2}, shape{0x1F, 0, 0}, shape{0x1F, 1, 24}, shape{0x0E, -187, 0})
		}
		sh := shapes[vrt.Choose("srcShape", 0, len(shapes)-1)]
		src, sm = c03wfShape("src", sh.f, sh.tl, sh.el)
	}
	q := dst
	srcAF, _ := src.AdaptationField()
	err := q.SetAdaptationField(srcAF)
	fits := sm.end <= 5+dm.L
	vrt.Assert((err == nil) == fits, "copying an adaptation field fails exactly when its content exceeds the destination's adaptation_field_length")
	if fits {
		ok := true
		for i := 0; i < 188; i++ {
			var exp byte
			switch {
			case i < 5 || i >= 5+dm.L:
				exp = dst[i]
			case i < sm.end:
				exp = src[i]
			default:
				exp = 0xFF
			}
			if q[i] != exp {
				ok = false
			}
			if i%47 == 46 || i == 187 {
				vrt.Assert(ok, "after SetAdaptationField: source flags and fields, destination length/header/payload, rest stuffed")
				ok = true
			}
		}
		c03assertWF(&q, "the packet stays well-formed")
	} else {
		c03unchanged(&dst, &q, "a call that cannot be honoured leaves the packet unchanged")
	}
	var none Packet
	vrt.Bytes("none", none[:])
	none[3] &^= 0x20
	keep := none
	vrt.Assert(none.SetAdaptationField(srcAF) == gots.ErrNoAdaptationField && none == keep, "a packet without adaptation field refuses the copy unchanged")
	vrt.Reach("end")
}
