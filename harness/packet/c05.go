package packet

import (
	"github.com/Comcast/gots/v2/zzverif/vrt"
)

// C05 (package packet) — accessors and modifiers are total on ANY 188-byte array: every
// implicit Go panic check and every loop bound is an obligation; read-only operations leave the
// array unchanged. No well-formedness assumption.

func c05any(name string) Packet {
	var p Packet
	vrt.Bytes(name, p[:])
	return p
}

func VH_C05_PacketReaders() {
	vrt.SetUnwind(400, true)
	op := vrt.Choose("op", 0, 6)
	p := c05any("p")
	orig := p
	switch op {
	case 0:
		_, _ = Payload(&p)
	case 1:
		_ = Header(&p)
	case 2:
		_, _ = PESHeader(&p)
	case 3:
		_, _ = p.Payload()
	case 4:
		_ = p.CheckErrors()
		_ = p.IsNull()
		_ = p.IsPAT()
		_ = Equal(&p, &orig)
	case 5:
		b := make([]byte, []int{0, 1, 187, 188, 189}[vrt.Choose("len", 0, 4)])
		vrt.Bytes("b", b)
		_, _ = FromBytes(b)
	case 6:
		_ = IncrementCC(&p)
		_ = ZeroCC(&p)
		_ = SetCC(&p, vrt.Byte("cc"))
	}
	vrt.Assert(p == orig, "read-only packet operations never modify the packet")
	vrt.Reach("end")
}

func VH_C05_AFGetters() {
	vrt.SetUnwind(400, true)
	op := vrt.Choose("op", 0, 8)
	p := c05any("p")
	orig := p
	af, err := p.AdaptationField()
	if err == nil && af != nil {
		switch op {
		case 0:
			_ = af.Length()
			_, _ = af.Discontinuity()
			_, _ = af.RandomAccess()
			_, _ = af.ElementaryStreamPriority()
		case 1:
			_, _ = af.HasPCR()
			_, _ = af.PCR()
		case 2:
			_, _ = af.HasOPCR()
			_, _ = af.OPCR()
		case 3:
			_, _ = af.HasSplicingPoint()
			_, _ = af.SpliceCountdown()
		case 4:
			_, _ = af.HasTransportPrivateData()
		case 5:
			_, _ = af.TransportPrivateData()
		case 6:
			_, _ = af.HasAdaptationFieldExtension()
		case 7:
			_, _ = af.AdaptationFieldExtension()
		case 8:
			_ = NewAdaptationField()
		}
	}
	vrt.Assert(p == orig, "adaptation-field getters never modify the packet")
	vrt.Reach("end")
}

// c05presence makes the five presence flags concrete (quick: 2 combinations, thorough: 8);
// adaptation_field_length, both length bytes and every other byte stay symbolic and unconstrained
func c05presence(p *Packet) {
	if vrt.Tier() == 1 {
		p[5] = p[5]&0xE0 | []byte{0x00, 0x10, 0x04, 0x02, 0x01, 0x03, 0x1F, 0x0A}[vrt.Choose("presence", 0, 7)]
		return
	}
	p[5] = p[5]&0xE0 | []byte{0x00, 0x1F}[vrt.Choose("presence", 0, 1)]
}

func VH_C05_AFSetters() {
	vrt.SetUnwind(400, true)
	op := vrt.Choose("op", 0, 12)
	p := c05any("p")
	c05presence(&p)
	v := vrt.Choose("v", 0, 1) == 1
	af, err := p.AdaptationField()
	if err == nil && af != nil {
		switch op {
		case 0:
			_ = af.SetDiscontinuity(v)
		case 1:
			_ = af.SetRandomAccess(v)
		case 2:
			_ = af.SetElementaryStreamPriority(v)
		case 3:
			_ = af.SetHasPCR(v)
		case 4:
			_ = af.SetHasOPCR(v)
		case 5:
			_ = af.SetHasSplicingPoint(v)
		case 6:
			_ = af.SetHasTransportPrivateData(v)
		case 7:
			_ = af.SetHasAdaptationFieldExtension(v)
		case 8:
			_ = af.SetPCR(vrt.Uint64("pcr"))
		case 9:
			_ = af.SetOPCR(vrt.Uint64("pcr"))
		case 10:
			_ = af.SetSpliceCountdown(vrt.Byte("cd"))
		case 11:
			d := make([]byte, vrt.Choose("n", 0, 3))
			vrt.Bytes("d", d)
			_ = af.SetTransportPrivateData(d)
		case 12:
			d := make([]byte, vrt.Choose("n", 0, 3))
			vrt.Bytes("d", d)
			_ = af.SetAdaptationFieldExtension(d)
		}
	}
	vrt.Reach("end")
}

func VH_C05_PacketModifiers() {
	vrt.SetUnwind(400, true)
	op := vrt.Choose("op", 0, 2)
	p := c05any("p")
	c05presence(&p)
	// adaptation_field_control and adaptation_field_length from a boundary set (incl. values that
	// overrun the packet); the length bytes of the optional fields and all other bytes symbolic
	if vrt.Tier() == 0 {
		p[3] = p[3]&0xCF | []byte{0x10, 0x30}[vrt.Choose("afc", 0, 1)]
		p[4] = []byte{0, 20, 184, 255}[vrt.Choose("afLength", 0, 3)]
	} else {
		p[3] = p[3]&0xCF | byte(vrt.Choose("afc", 0, 3))<<4
		p[4] = []byte{0, 1, 20, 182, 184, 255, 183}[vrt.Choose("afLength", 0, 6)]
	}
	switch op {
	case 0:
		n := []int{0, 100, 200}[vrt.Choose("n", 0, 2)]
		d := make([]byte, n)
		vrt.Bytes("d", d)
		_, _ = p.SetPayload(d)
	case 1:
		_ = p.SetAdaptationFieldControl(AdaptationFieldControlOptions(vrt.Byte("afc2") & 3))
	case 2:
		src := c05any("src")
		c05presence(&src)
		_ = p.SetAdaptationField((*AdaptationField)(&src))
	}
	vrt.Reach("end")
}

// stream-level entry points of package packet on arbitrary bytes
func VH_C05_Streams() {
	vrt.SetUnwind(600, true)
	op := vrt.Choose("op", 0, 2)
	switch op {
	case 0: // sync search on any short stream (longer ones: C16)
		n := vrt.Choose("len", 0, 8)
		s := make([]byte, n)
		vrt.Bytes("s", s)
		_, _ = Sync(&c16rd{s: s})
		_, _ = IsSynced(&c16rd{s: s})
	case 1: // accumulator with arbitrary packets and a predicate that never completes
		acc := NewAccumulator(func(b []byte) (bool, error) { return false, nil })
		for i := 0; i < 2; i++ {
			// header bits symbolic, adaptation_field_control / length from a boundary set, rest stuffing
			var p Packet
			vrt.Bytes("pkt", p[:4])
			p[3] = p[3]&0xCF | byte(vrt.Choose("afc", 0, 3))<<4
			p[4] = []byte{0, 1, 183, 184, 255}[vrt.Choose("afLength", 0, 4)]
			p[5] = vrt.Byte("flags")
			for j := 6; j < 188; j++ {
				p[j] = 0xFF
			}
			orig := p
			_, _ = acc.WritePacket(&p)
			vrt.Assert(p == orig, "WritePacket never modifies the packet")
			_ = acc.Bytes()
			_ = acc.Packets()
		}
		acc.Reset()
	case 2: // writer adapters with arbitrary lengths
		n := []int{0, 1, 187, 188, 189, 376}[vrt.Choose("len", 0, 5)]
		d := make([]byte, n)
		vrt.Bytes("d", d)
		rec := &c18rec{failAt: -1}
		_, _ = IOWriter(rec).Write(d)
	}
	vrt.Reach("end")
}
