package packet

import (
	"github.com/Comcast/gots/v2/zzverif/vrt"
)

// C05 (package packet) — accessors and modifiers are total on ANY 188-byte array: every
// implicit Go panic check and every loop bound is an obligation; read-only operations leave the
// array unchanged. No well-formedness assumption.

func c05any(name string) Packet {
	var p Packet
	vrt.Bytes(name, p[:])
	return p
}

func VH_C05_PacketReaders() {
	vrt.SetUnwind(400, true)
	op := vrt.Choose("op", 0, 6)
	p := c05any("p")
	orig := p
	switch op {
	case 0:
		_, _ = Payload(&p)
	case 1:
		_ = Header(&p)
	case 2:
		_, _ = PESHeader(&p)
	case 3:
		_, _ = p.Payload()
	case 4:
		_ = p.CheckErrors()
		_ = p.IsNull()
		_ = p.IsPAT()
		_ = Equal(&p, &orig)
	case 5:
		b := make([]byte, []int{0, 1, 187, 188, 189}[vrt.Choose("len", 0, 4)])
		vrt.Bytes("b", b)
		_, _ = FromBytes(b)
	case 6:
		_ = IncrementCC(&p)
		_ = ZeroCC(&p)
		_ = SetCC(&p, vrt.Byte("cc"))
	}
	vrt.Assert(p == orig, "read-only packet operations never modify the packet")
	vrt.Reach("end")
}

func VH_C05_AFGetters() {
	vrt.SetUnwind(400, true)
	op := vrt.Choose("op", 0, 8)
	p := c05any("p")
	orig := p
	af, err := p.AdaptationField()
	if err == nil && af != nil {
		switch op {
		case 0:
			_ = af.Length()
			_, _ = af.Discontinuity()
			_, _ = af.RandomAccess()
			_, _ = af.ElementaryStreamPriority()
		case 1:
			_, _ = af.HasPCR()
			_, _ = af.PCR()
		case 2:
			_, _ = af.HasOPCR()
			_, _ = af.OPCR()
		case 3:
			_, _ = af.HasSplicingPoint()
			_, _ = af.SpliceCountdown()
		case 4:
			_, _ = af.HasTransportPrivateData()
		case 5:
			_, _ = af.TransportPrivateData()
		case 6:
			_, _ = af.HasAdaptationFieldExtension()
		case 7:
			_, _ = af.AdaptationFieldExtension()
		case 8:
			_ = NewAdaptationField()
		}
	}
	vrt.Assert(p == orig, "adaptation-field getters never modify the packet")
	vrt.Reach("end")
}

func VH_C05_AFSetters() {
	vrt.SetUnwind(400, true)
	op := vrt.Choose("op", 0, 12)
	p := c05any("p")
	v := vrt.Bool("v")
	af, err := p.AdaptationField()
	if err == nil && af != nil {
		switch op {
		case 0:
			_ = af.SetDiscontinuity(v)
		case 1:
			_ = af.SetRandomAccess(v)
		case 2:
			_ = af.SetElementaryStreamPriority(v)
		case 3:
			_ = af.SetHasPCR(v)
		case 4:
			_ = af.SetHasOPCR(v)
		case 5:
			_ = af.SetHasSplicingPoint(v)
		case 6:
			_ = af.SetHasTransportPrivateData(v)
		case 7:
			_ = af.SetHasAdaptationFieldExtension(v)
		case 8:
			_ = af.SetPCR(vrt.Uint64("pcr"))
		case 9:
			_ = af.SetOPCR(vrt.Uint64("pcr"))
		case 10:
			_ = af.SetSpliceCountdown(vrt.Byte("cd"))
		case 11:
			d := make([]byte, vrt.Choose("n", 0, 3))
			vrt.Bytes("d", d)
			_ = af.SetTransportPrivateData(d)
		case 12:
			d := make([]byte, vrt.Choose("n", 0, 3))
			vrt.Bytes("d", d)
			_ = af.SetAdaptationFieldExtension(d)
		}
	}
	vrt.Reach("end")
}

func VH_C05_PacketModifiers() {
	vrt.SetUnwind(400, true)
	op := vrt.Choose("op", 0, 2)
	p := c05any("p")
	switch op {
	case 0:
		n := []int{0, 1, 100, 184, 200}[vrt.Choose("n", 0, 4)]
		d := make([]byte, n)
		vrt.Bytes("d", d)
		_, _ = p.SetPayload(d)
	case 1:
		_ = p.SetAdaptationFieldControl(AdaptationFieldControlOptions(vrt.Byte("afc") & 3))
	case 2:
		src := c05any("src")
		_ = p.SetAdaptationField((*AdaptationField)(&src))
	}
	vrt.Reach("end")
}
