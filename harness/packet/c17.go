package packet

import (
	"errors"

	"github.com/Comcast/gots/v2"
	"github.com/Comcast/gots/v2/zzverif/vrt"
)

// C17 — payload accumulator vs a ghost model (byte buffer, packet list, state).

var c17errPred = errors.New("c17: predicate failed")

// c17packet builds a well-formed packet of the chosen shape with all other bytes symbolic.
// shape: 0 payload only (184 bytes), 1 adaptation field only (no payload),
// 2 AF length 0 (183 bytes), 3 AF length 7 (176 bytes), 4 AF length 182 (1 byte),
// 5 payload flag set but the adaptation field fills the packet (payload present and empty)
func c17packet(tag string, shape int, pusi bool) (Packet, int) {
	var p Packet
	vrt.Bytes(tag, p[:])
	p[0] = 0x47
	if pusi {
		p[1] |= 0x40
	} else {
		p[1] &^= 0x40
	}
	pay := 0
	switch shape {
	case 0:
		p[3] = p[3]&0xCF | 0x10
		pay = 184
	case 1:
		p[3] = p[3]&0xCF | 0x20
		p[4] = 183
		pay = -1
	case 2:
		p[3] |= 0x30
		p[4] = 0
		pay = 183
	case 3:
		p[3] |= 0x30
		p[4] = 7
		pay = 176
	case 4:
		p[3] |= 0x30
		p[4] = 182
		pay = 1
	case 5:
		p[3] |= 0x30
		p[4] = 183
		pay = 0
	}
	return p, pay
}

type c17model struct {
	started bool
	done    bool
	buf     []byte
	pkts    []Packet
	refused int // no-payload packets refused in the current unit (membership in Packets() is unconstrained, O1)
}

func c17check(acc Accumulator, m *c17model, where string) {
	b := acc.Bytes()
	vrt.Assert(len(b) == len(m.buf), "Bytes() has the length of the payloads accepted since the last unit start")
	for i := 0; i < len(b) && i < len(m.buf); i++ {
		vrt.Assert(b[i] == m.buf[i], "Bytes() is the concatenation of the accepted payloads")
	}
	ps := acc.Packets()
	if m.refused == 0 {
		vrt.Assert(len(ps) == len(m.pkts), "Packets() lists exactly the packets accepted since the last unit start")
		for i := 0; i < len(ps) && i < len(m.pkts); i++ {
			vrt.Assert(*ps[i] == m.pkts[i], "Packets() holds the accepted packets in order")
		}
	} else {
		vrt.Assert(len(ps) == len(m.pkts) || len(ps) == len(m.pkts)+m.refused, "Packets() lists the accepted packets (refused no-payload packets may or may not be listed)")
	}
	// Bytes() is a defensive copy
	if len(b) > 0 {
		b[0] ^= 0xFF
		b2 := acc.Bytes()
		vrt.Assert(b2[0] == m.buf[0], "modifying the slice returned by Bytes() does not change the accumulator")
	}
}

func c17run(k int, predKind int) {
	thr := vrt.Int("threshold")
	vrt.Assume(thr >= 0 && thr <= 2000)
	var pred func([]byte) (bool, error)
	if predKind == 0 {
		pred = func(b []byte) (bool, error) { return len(b) >= thr, nil }
	} else {
		pred = func(b []byte) (bool, error) {
			if len(b) >= thr {
				return false, c17errPred
			}
			return false, nil
		}
	}
	acc := NewAccumulator(pred)
	m := &c17model{}
	for step := 0; step < k; step++ {
		op := vrt.Choose("op", 0, 12) // 0..11 = WritePacket(shape op/2, pusi op%2), 12 = Reset
		if op == 12 {
			acc.Reset()
			*m = c17model{}
			c17check(acc, m, "after Reset")
			continue
		}
		shape, pusi := op/2, op%2 == 1
		p, pay := c17packet("pkt", shape, pusi)
		orig := p
		n, err := acc.WritePacket(&p)
		vrt.Assert(p == orig, "WritePacket never modifies the packet it is given")
		switch {
		case m.done:
			vrt.Assert(err == gots.ErrAccumulatorDone, "further packets are refused once complete")
		case !m.started && !pusi:
			vrt.Assert(err == gots.ErrNoPayloadUnitStartIndicator, "packets are refused until the first unit start")
			vrt.Assert(n == PacketSize, "refused packet still reports 188")
		default:
			if pusi {
				m.buf, m.pkts, m.refused = nil, nil, 0
				m.started = true
			}
			if pay < 0 {
				vrt.Assert(err == gots.ErrNoPayload, "a packet without payload is reported as an error")
				m.refused++
			} else {
				m.buf = append(m.buf, orig[PacketSize-pay:]...)
				m.pkts = append(m.pkts, orig)
				hit := len(m.buf) >= thr
				if predKind == 0 {
					if hit {
						vrt.Assert(err == gots.ErrAccumulatorDone, "completion is reported at the first packet after which the predicate holds")
						m.done = true
					} else {
						vrt.Assert(err == nil, "no error while the predicate does not hold")
					}
				} else {
					if hit {
						vrt.Assert(err == c17errPred, "the predicate's error is propagated")
					} else {
						vrt.Assert(err == nil, "no error while the predicate does not fail")
					}
				}
			}
		}
		// later changes to the caller's packet do not reach the accumulator
		p[100] ^= 0xFF
		c17check(acc, m, "after WritePacket")
	}
	vrt.Reach("end")
}

func c17steps() int {
	if vrt.Tier() == 0 {
		return 2
	}
	return 3
}

func VH_C17_Threshold() { c17run(c17steps(), 0) }
func VH_C17_Failing()   { c17run(c17steps(), 1) }

// longer histories over a reduced alphabet (payload-only and 1-byte payload packets, with/without PUSI, Reset)
func VH_C17_Long() {
	k := 4
	if vrt.Tier() == 1 {
		k = 5
	}
	thr := vrt.Int("threshold")
	vrt.Assume(thr >= 0 && thr <= 2000)
	acc := NewAccumulator(func(b []byte) (bool, error) { return len(b) >= thr, nil })
	m := &c17model{}
	for step := 0; step < k; step++ {
		op := vrt.Choose("op", 0, 4) // 0: payload-only no PUSI, 1: payload-only PUSI, 2: 1-byte no PUSI, 3: no-payload no PUSI, 4: Reset
		if op == 4 {
			acc.Reset()
			*m = c17model{}
			c17check(acc, m, "after Reset")
			continue
		}
		shape := []int{0, 0, 4, 1}[op]
		pusi := op == 1
		p, pay := c17packet("pkt", shape, pusi)
		orig := p
		_, err := acc.WritePacket(&p)
		switch {
		case m.done:
			vrt.Assert(err == gots.ErrAccumulatorDone, "further packets are refused once complete")
		case !m.started && !pusi:
			vrt.Assert(err == gots.ErrNoPayloadUnitStartIndicator, "packets are refused until the first unit start")
		default:
			if pusi {
				m.buf, m.pkts, m.refused = nil, nil, 0
				m.started = true
			}
			if pay < 0 {
				vrt.Assert(err == gots.ErrNoPayload, "a packet without payload is reported as an error")
				m.refused++
			} else {
				m.buf = append(m.buf, orig[PacketSize-pay:]...)
				m.pkts = append(m.pkts, orig)
				if len(m.buf) >= thr {
					vrt.Assert(err == gots.ErrAccumulatorDone, "completion is reported at the first packet after which the predicate holds")
					m.done = true
				} else {
					vrt.Assert(err == nil, "no error while the predicate does not hold")
				}
			}
		}
		c17check(acc, m, "after WritePacket")
	}
	vrt.Reach("end")
}
