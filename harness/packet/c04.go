package packet

import (
	"github.com/Comcast/gots/v2"
	"github.com/Comcast/gots/v2/zzverif/vrt"
)

// end to end: PCR/OPCR set on an adaptation field are read back unchanged, for every
// content of the rest of the packet (adaptation_field_length and all other flags symbolic).
func VH_C04_AFEndToEnd() {
	var p Packet
	vrt.Bytes("p", p[:])
	vrt.Assume(p[3]&0x20 != 0 && p[4] >= 13 && p[4] <= 183 && p[5]&0x18 == 0x18)
	pcr, opcr := vrt.Uint64("pcr"), vrt.Uint64("opcr")
	lim := (uint64(1) << 33) * 300
	vrt.Assume(pcr < lim && opcr < lim)
	af, err := p.AdaptationField()
	vrt.Assert(err == nil && af != nil, "adaptation field present")
	vrt.Assert(af.SetPCR(pcr) == nil, "SetPCR succeeds on a present PCR")
	vrt.Assert(af.SetOPCR(opcr) == nil, "SetOPCR succeeds on a present OPCR")
	// composed identity (no 42-bit multiply/divide query under load): the bytes written are
	// InsertPCR(value) at the ISO positions, the getters decode exactly those bytes, and
	// ExtractPCR(InsertPCR(v)) == v for every v is the codec lemma of the root-package harness
	var w [12]byte
	gots.InsertPCR(w[0:6], pcr)
	gots.InsertPCR(w[6:12], opcr)
	same := true
	for i := 0; i < 12; i++ {
		if p[6+i] != w[i] {
			same = false
		}
	}
	vrt.Assert(same, "SetPCR/SetOPCR write the encoded values to bytes 6..11 and 12..17")
	g, err := af.PCR()
	vrt.Assert(err == nil && g == gots.ExtractPCR(p[6:12]), "the PCR getter decodes bytes 6..11")
	o, err := af.OPCR()
	vrt.Assert(err == nil && o == gots.ExtractPCR(p[12:18]), "the OPCR getter decodes bytes 12..17")
	vrt.Reach("end")
}

// end to end through the presence setters: PCR and OPCR are added to a field that has neither,
// in either order and with the values written before or after the other flag is raised; both
// must read back unchanged and sit at the ISO positions (PCR bytes 6..11, OPCR the 6 bytes after).
func VH_C04_AFSetSequence() {
	order := vrt.Choose("order", 0, 3)
	rest := vrt.Choose("rest", 0, 2) // what follows the OPCR: nothing / splice countdown / splice + 2 private bytes
	presence := []byte{0, 0x04, 0x06}[rest]
	p, m := c03wfShape("p", presence, 2, 0)
	vrt.Assume(5+m.L-m.end >= 12) // room for both fields
	// concrete clock values (three pairs with every value bit set in one of them): which VALUES
	// survive is the codec lemma; this harness is about positions and sequencing, and symbolic
	// values would put a divide-by-300 term into every byte comparison of the shifted field
	vals := [][2]uint64{{0x1FFFFFFFF*300 + 299, 0}, {0x0AAAAAAAA*300 + 0x155, 0x155555555*300 + 0xAA}, {1, 0x1FFFFFFFF*300 + 299}}[vrt.Choose("values", 0, 2)]
	pcr, opcr := vals[0], vals[1]
	orig := p
	af, err := p.AdaptationField()
	vrt.Assert(err == nil && af != nil, "adaptation field present")
	ok := true
	step := func(e error) {
		if e != nil {
			ok = false
		}
	}
	switch order {
	case 0: // PCR completely, then OPCR
		step(af.SetHasPCR(true))
		step(af.SetPCR(pcr))
		step(af.SetHasOPCR(true))
		step(af.SetOPCR(opcr))
	case 1: // OPCR completely, then PCR (the OPCR must move behind the new PCR)
		step(af.SetHasOPCR(true))
		step(af.SetOPCR(opcr))
		step(af.SetHasPCR(true))
		step(af.SetPCR(pcr))
	case 2: // both flags, then both values
		step(af.SetHasPCR(true))
		step(af.SetHasOPCR(true))
		step(af.SetOPCR(opcr))
		step(af.SetPCR(pcr))
	case 3:
		step(af.SetHasOPCR(true))
		step(af.SetHasPCR(true))
		step(af.SetPCR(pcr))
		step(af.SetOPCR(opcr))
	}
	vrt.Assert(ok, "adding PCR and OPCR to a field with room succeeds")
	// The value identity is composed from two facts so that no 42-bit multiply/divide query is
	// needed per shape: (1) the bytes at the ISO positions are InsertPCR(value) (below) and the
	// getters decode exactly those bytes; (2) ExtractPCR(InsertPCR(v)) == v for every v (the codec
	// lemma of the root-package C04 harness, decided once).
	g, err := af.PCR()
	vrt.Assert(err == nil && g == gots.ExtractPCR(p[6:12]), "the PCR getter decodes bytes 6..11")
	o, err := af.OPCR()
	vrt.Assert(err == nil && o == gots.ExtractPCR(p[12:18]), "the OPCR getter decodes the 6 bytes after the PCR")
	var w [12]byte
	gots.InsertPCR(w[0:6], pcr)
	gots.InsertPCR(w[6:12], opcr)
	same := p[5] == orig[5]|0x18 && p[4] == orig[4]
	for i := 0; i < 12; i++ {
		if p[6+i] != w[i] {
			same = false
		}
	}
	vrt.Assert(same, "PCR occupies bytes 6..11 and the OPCR the 6 bytes after it, flags raised, length unchanged")
	// what followed the (absent) clock fields now follows the OPCR
	moved := true
	for i := 6; i < m.end; i++ {
		if p[i+12] != orig[i] {
			moved = false
		}
	}
	vrt.Assert(moved, "the other optional fields follow the OPCR unchanged")
	// removing the PCR again keeps the OPCR value
	vrt.Assert(af.SetHasPCR(false) == nil, "removing the PCR succeeds")
	o, err = af.OPCR()
	back := err == nil && o == gots.ExtractPCR(p[6:12]) && p[5] == orig[5]|0x08
	for i := 0; i < 6; i++ {
		if p[6+i] != w[6+i] {
			back = false
		}
	}
	vrt.Assert(back, "the OPCR survives removing the PCR (moved to bytes 6..11, same bytes)")
	vrt.Reach("end")
}
