package packet

import "github.com/Comcast/gots/v2/zzverif/vrt"

// end to end: PCR/OPCR set on an adaptation field are read back unchanged, for every
// content of the rest of the packet (adaptation_field_length and all other flags symbolic).
func VH_C04_AFEndToEnd() {
	var p Packet
	vrt.Bytes("p", p[:])
	vrt.Assume(p[3]&0x20 != 0 && p[4] >= 13 && p[4] <= 183 && p[5]&0x18 == 0x18)
	pcr, opcr := vrt.Uint64("pcr"), vrt.Uint64("opcr")
	lim := (uint64(1) << 33) * 300
	vrt.Assume(pcr < lim && opcr < lim)
	af, err := p.AdaptationField()
	vrt.Assert(err == nil && af != nil, "adaptation field present")
	vrt.Assert(af.SetPCR(pcr) == nil, "SetPCR succeeds on a present PCR")
	vrt.Assert(af.SetOPCR(opcr) == nil, "SetOPCR succeeds on a present OPCR")
	g, err := af.PCR()
	vrt.Assert(err == nil && g == pcr, "PCR set on an adaptation field is read back unchanged")
	o, err := af.OPCR()
	vrt.Assert(err == nil && o == opcr, "OPCR set on an adaptation field is read back unchanged")
	vrt.Reach("end")
}
