package packet

import (
	"errors"
	"io"

	"github.com/Comcast/gots/v2"
	"github.com/Comcast/gots/v2/zzverif/vrt"
)

// C18 — writer adapters. Recording PacketWriter + fragmenting reader stub.

var (
	c18errWrite = errors.New("c18: packet write failed")
	c18errRead  = errors.New("c18: reader failed")
)

type c18rec struct {
	got    []Packet
	failAt int // index of the failing WritePacket call, -1 = never
	closed int
}

func (r *c18rec) WritePacket(p *Packet) (int, error) {
	if len(r.got) == r.failAt {
		r.failAt = -2 // any later call is recorded as a delivery after the failure
		return 0, c18errWrite
	}
	r.got = append(r.got, *p)
	return PacketSize, nil
}

func (r *c18rec) Close() error { r.closed++; return nil }

func VH_C18_Write() {
	n := vrt.Choose("packets", 0, 3)
	failAt := vrt.Choose("failAt", -1, 2)
	if failAt >= n {
		failAt = -1
	}
	data := make([]byte, n*PacketSize)
	vrt.Bytes("data", data)
	keep := make([]byte, len(data))
	copy(keep, data)
	rec := &c18rec{failAt: failAt}
	w := IOWriter(rec)
	cnt, err := w.Write(data)
	if failAt < 0 {
		vrt.Assert(err == nil && cnt == n*PacketSize, "all packet writes succeed: full length, no error")
		vrt.Assert(len(rec.got) == n, "the packet writer is invoked once per packet")
	} else {
		vrt.Assert(err == c18errWrite, "a failing packet write returns its error")
		vrt.Assert(len(rec.got) == failAt, "no later packet is delivered after a failure")
		vrt.Assert(cnt == failAt*PacketSize, "the count covers the packets delivered before the failure")
	}
	for i := 0; i < len(rec.got); i++ {
		for j := 0; j < PacketSize; j++ {
			vrt.Assert(rec.got[i][j] == keep[i*PacketSize+j], "each delivered packet is exactly the corresponding 188 bytes, in order")
		}
	}
	for i := range data {
		vrt.Assert(data[i] == keep[i], "Write does not modify the caller's slice")
	}
	vrt.Reach("end")
}

func VH_C18_WriteBadLength() {
	k := vrt.Choose("len", 0, 5)
	n := []int{1, 187, 189, 375, 377, 563}[k]
	data := make([]byte, n)
	vrt.Bytes("data", data)
	rec := &c18rec{failAt: -1}
	cnt, err := IOWriter(rec).Write(data)
	vrt.Assert(err == gots.ErrInvalidPacketLength && cnt == 0, "a length that is not a multiple of 188 is rejected with ErrInvalidPacketLength")
	vrt.Assert(len(rec.got) == 0, "nothing is delivered for an invalid length")
	vrt.Reach("end")
}

// reader stub: delivers stream in fragments of the sizes in pattern (cyclically);
// eofWithData makes the last fragment come together with io.EOF; failAfter >= 0
// makes the reader fail with c18errRead once that many bytes were delivered.
type c18reader struct {
	stream      []byte
	pos         int
	pattern     []int
	k           int
	eofWithData bool
	failAfter   int
	calls       int
}

func (r *c18reader) Read(p []byte) (int, error) {
	r.calls++
	if r.calls > 2000 {
		return 0, c18errRead
	}
	if r.failAfter >= 0 && r.pos >= r.failAfter {
		return 0, c18errRead
	}
	rem := len(r.stream) - r.pos
	if rem == 0 {
		return 0, io.EOF
	}
	n := r.pattern[r.k%len(r.pattern)]
	r.k++
	if n > len(p) {
		n = len(p)
	}
	if n > rem {
		n = rem
	}
	if r.failAfter >= 0 && r.pos+n > r.failAfter {
		n = r.failAfter - r.pos
	}
	copy(p[:n], r.stream[r.pos:r.pos+n])
	r.pos += n
	if r.eofWithData && r.pos == len(r.stream) {
		return n, io.EOF
	}
	return n, nil
}

// c18readerWT is the same reader that also offers io.WriterTo (like bytes.Reader, bytes.Buffer or
// bufio.Reader): WriteTo pushes the remaining stream in the reader's own fragment sizes. ReadFrom
// must deliver the same packets whichever of the two interfaces it uses.
type c18readerWT struct{ c18reader }

func (r *c18readerWT) WriteTo(w io.Writer) (int64, error) {
	var total int64
	for r.pos < len(r.stream) {
		n := r.pattern[r.k%len(r.pattern)]
		r.k++
		if n > len(r.stream)-r.pos {
			n = len(r.stream) - r.pos
		}
		m, err := w.Write(r.stream[r.pos : r.pos+n])
		r.pos += m
		total += int64(m)
		if err != nil {
			return total, err
		}
		if m != n {
			return total, io.ErrShortWrite
		}
	}
	return total, nil
}

var c18patterns = [][]int{{188}, {1}, {187, 1}, {1, 187}, {94, 94}, {100, 88}, {50, 50, 88}, {63}, {376}, {2, 3, 5, 7, 11}}

func VH_C18_ReadFrom() {
	np := vrt.Choose("packets", 0, 2+2*vrt.Tier())
	tailK := vrt.Choose("tail", 0, 2)
	tail := []int{0, 1, 187}[tailK]
	pat := vrt.Choose("pattern", 0, len(c18patterns)-1)
	eofWithData := vrt.Choose("eofWithData", 0, 1) == 1
	writerTo := vrt.Choose("readerIsWriterTo", 0, 1) == 1
	stream := make([]byte, np*PacketSize+tail)
	vrt.Bytes("stream", stream)
	rec := &c18rec{failAt: -1}
	base := c18reader{stream: stream, pattern: c18patterns[pat], eofWithData: eofWithData, failAfter: -1}
	var rd io.Reader = &base
	if writerTo {
		rd = &c18readerWT{base}
	}
	w := IOWriter(rec).(io.ReaderFrom)
	cnt, err := w.ReadFrom(rd)
	vrt.Assert(len(rec.got) == np, "every complete 188-byte packet of the stream is delivered, however the reader fragments it")
	vrt.Assert(cnt == int64(np*PacketSize), "ReadFrom returns the number of bytes delivered")
	if tail > 0 {
		vrt.Assert(err == gots.ErrInvalidPacketLength, "a stream ending in a partial packet yields ErrInvalidPacketLength")
	} else {
		vrt.Assert(err == nil, "a stream of whole packets ends without error")
	}
	for i := 0; i < len(rec.got) && i < np; i++ {
		for j := 0; j < PacketSize; j++ {
			vrt.Assert(rec.got[i][j] == stream[i*PacketSize+j], "packets are delivered in order with exactly their bytes")
		}
	}
	vrt.Reach("end")
}

func VH_C18_ReadFromFailures() {
	np := vrt.Choose("packets", 1, 2)
	pat := vrt.Choose("pattern", 0, 4)
	mode := vrt.Choose("mode", 0, 2) // 0: reader fails at a packet boundary, 1: reader fails inside a packet, 2: packet write fails
	stream := make([]byte, np*PacketSize)
	vrt.Bytes("stream", stream)
	rec := &c18rec{failAt: -1}
	rd := &c18reader{stream: stream, pattern: c18patterns[pat], failAfter: -1}
	want := np
	switch mode {
	case 0:
		rd.failAfter = (np - 1) * PacketSize
		want = np - 1
	case 1:
		rd.failAfter = (np-1)*PacketSize + 100
		want = np - 1
	case 2:
		rec.failAt = np - 1
		want = np - 1
	}
	cnt, err := IOWriter(rec).(io.ReaderFrom).ReadFrom(rd)
	vrt.Assert(len(rec.got) == want && cnt == int64(want*PacketSize), "packets before the failure are delivered and counted, none after")
	if mode == 2 {
		vrt.Assert(err == c18errWrite, "a failing packet write ends ReadFrom with its error")
	} else {
		vrt.Assert(err == c18errRead, "the reader's own error is returned")
	}
	vrt.Reach("end")
}

func VH_C18_Adapters() {
	var p Packet
	vrt.Bytes("p", p[:])
	rec := &c18rec{failAt: -1}
	wc := IOWriteCloser(rec)
	n, err := wc.WritePacket(&p)
	vrt.Assert(n == PacketSize && err == nil && len(rec.got) == 1 && rec.got[0] == p, "IOWriteCloser passes WritePacket through")
	vrt.Assert(wc.Close() == nil && rec.closed == 1, "IOWriteCloser passes Close through")
	nc := NopCloser(rec)
	n, err = nc.WritePacket(&p)
	vrt.Assert(n == PacketSize && err == nil && len(rec.got) == 2, "NopCloser passes WritePacket through")
	vrt.Assert(nc.Close() == nil && rec.closed == 1, "NopCloser.Close does nothing")
	calls := 0
	f := PacketWriterFunc(func(q *Packet) (int, error) { calls++; return int(q[0]), c18errWrite })
	n, err = f.WritePacket(&p)
	vrt.Assert(calls == 1 && n == int(p[0]) && err == c18errWrite, "PacketWriterFunc calls the function and returns its results")
	vrt.Reach("end")
}
