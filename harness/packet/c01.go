package packet

import (
	"github.com/Comcast/gots/v2"
	"github.com/Comcast/gots/v2/zzverif/vrt"
)

// C01 — transport header getters/setters. Reference (ISO/IEC 13818-1 2.4.3.2):
// h = b0<<24 | b1<<16 | b2<<8 | b3; sync=h>>24, TEI=h>>23&1, PUSI=h>>22&1,
// prio=h>>21&1, PID=h>>8&0x1FFF, TSC=h>>6&3, AFC=h>>4&3, CC=h&15.

func c01sym(name string) Packet {
	var p Packet
	vrt.Bytes(name, p[:])
	return p
}

func c01hdr(p *Packet) uint32 {
	return uint32(p[0])<<24 | uint32(p[1])<<16 | uint32(p[2])<<8 | uint32(p[3])
}

// c01same asserts that p and q agree outside the header bits selected by (m1,m2,m3)
// (masks of the bits of bytes 1,2,3 that are allowed to change).
func c01same(p, q *Packet, m1, m2, m3 byte, msg string) {
	for i := 0; i < PacketSize; i++ {
		keep := byte(0xFF)
		switch i {
		case 1:
			keep = ^m1
		case 2:
			keep = ^m2
		case 3:
			keep = ^m3
		}
		vrt.Assert(p[i]&keep == q[i]&keep, msg)
	}
}

func VH_C01_Getters() {
	p := c01sym("p")
	h := c01hdr(&p)
	vrt.Assert(p.TransportErrorIndicator() == (h>>23&1 == 1), "TEI getter = bit 23 of the header word")
	vrt.Assert(p.PayloadUnitStartIndicator() == (h>>22&1 == 1), "PUSI getter = bit 22")
	vrt.Assert(p.TransportPriority() == (h>>21&1 == 1), "priority getter = bit 21")
	vrt.Assert(p.PID() == int(h>>8&0x1FFF), "PID getter = bits 20..8")
	vrt.Assert(uint32(p.TransportScramblingControl()) == h>>6&3, "TSC getter = bits 7..6")
	vrt.Assert(uint32(p.AdaptationFieldControl()) == h>>4&3, "AFC getter = bits 5..4")
	vrt.Assert(p.ContinuityCounter() == int(h&15), "CC getter = bits 3..0")
	vrt.Assert(p.HasPayload() == (h>>4&1 == 1), "HasPayload = AFC low bit")
	vrt.Assert(p.HasAdaptationField() == (h>>5&1 == 1), "HasAdaptationField = AFC high bit")
	vrt.Assert(p.IsNull() == (h>>8&0x1FFF == 0x1FFF), "IsNull iff PID 0x1FFF")
	vrt.Assert(p.IsPAT() == (h>>8&0x1FFF == 0), "IsPAT iff PID 0")
	// function-style accessors agree with the method-style ones
	vrt.Assert(PayloadUnitStartIndicator(&p) == p.PayloadUnitStartIndicator(), "func PUSI == method PUSI")
	vrt.Assert(Pid(&p) == p.PID(), "func Pid == method PID")
	vrt.Assert(ContainsPayload(&p) == p.HasPayload(), "func ContainsPayload == method HasPayload")
	vrt.Assert(ContainsAdaptationField(&p) == p.HasAdaptationField(), "func ContainsAdaptationField == method")
	vrt.Assert(int(ContinuityCounter(&p)) == p.ContinuityCounter(), "func ContinuityCounter == method")
	vrt.Assert(IsNull(&p) == p.IsNull(), "func IsNull == method")
	vrt.Assert(IsPat(&p) == p.IsPAT(), "func IsPat == method IsPAT")
	q := p
	_ = p.PID()
	vrt.Assert(q == p, "getters do not modify the packet")
	vrt.Reach("end")
}

func VH_C01_SetBools() {
	p := c01sym("p")
	v := vrt.Bool("v")
	q := p
	q.SetTransportErrorIndicator(v)
	vrt.Assert(q.TransportErrorIndicator() == v, "TEI setter/getter")
	c01same(&p, &q, 0x80, 0, 0, "SetTransportErrorIndicator changes only bit 0x80 of byte 1")
	q = p
	q.SetPayloadUnitStartIndicator(v)
	vrt.Assert(q.PayloadUnitStartIndicator() == v && PayloadUnitStartIndicator(&q) == v, "PUSI setter/getter")
	c01same(&p, &q, 0x40, 0, 0, "SetPayloadUnitStartIndicator changes only bit 0x40 of byte 1")
	q = p
	q.SetTransportPriority(v)
	vrt.Assert(q.TransportPriority() == v, "priority setter/getter")
	c01same(&p, &q, 0x20, 0, 0, "SetTransportPriority changes only bit 0x20 of byte 1")
	vrt.Reach("end")
}

func VH_C01_SetPID() {
	p := c01sym("p")
	pid := vrt.Int("pid")
	vrt.Assume(pid >= 0 && pid < 8192)
	q := p
	q.SetPID(pid)
	vrt.Assert(q.PID() == pid, "PID getter returns the value set")
	vrt.Assert(Pid(&q) == pid, "function-style Pid agrees")
	vrt.Assert(q.IsNull() == (pid == 8191) && q.IsPAT() == (pid == 0), "classification follows the PID set")
	c01same(&p, &q, 0x1F, 0xFF, 0, "SetPID changes only the 13 PID bits")
	vrt.Reach("end")
}

func VH_C01_SetTSC() {
	p := c01sym("p")
	tsc := vrt.Byte("tsc")
	vrt.Assume(tsc <= 3)
	q := p
	q.SetTransportScramblingControl(TransportScramblingControlOptions(tsc))
	vrt.Assert(byte(q.TransportScramblingControl()) == tsc, "TSC getter returns the value set")
	c01same(&p, &q, 0, 0, 0xC0, "SetTransportScramblingControl changes only bits 7..6 of byte 3")
	vrt.Reach("end")
}

func VH_C01_SetCC() {
	p := c01sym("p")
	cc := vrt.Int("cc")
	q := p
	q.SetContinuityCounter(cc)
	vrt.Assert(q.ContinuityCounter() == cc&15, "CC getter returns the value set modulo 16")
	vrt.Assert(int(ContinuityCounter(&q)) == cc&15, "function-style CC agrees")
	c01same(&p, &q, 0, 0, 0x0F, "SetContinuityCounter changes only the 4 CC bits")
	q = p
	q.IncContinuityCounter()
	vrt.Assert(q.ContinuityCounter() == (p.ContinuityCounter()+1)%16, "IncContinuityCounter wraps modulo 16")
	c01same(&p, &q, 0, 0, 0x0F, "IncContinuityCounter changes only the 4 CC bits")
	q = p
	q.ZeroContinuityCounter()
	vrt.Assert(q.ContinuityCounter() == 0, "ZeroContinuityCounter")
	c01same(&p, &q, 0, 0, 0x0F, "ZeroContinuityCounter changes only the 4 CC bits")
	vrt.Reach("end")
}

func VH_C01_CopyHelpers() {
	p := c01sym("p")
	orig := p
	n := vrt.Byte("newcc")
	vrt.Assume(n <= 15)
	a := IncrementCC(&p)
	vrt.Assert(a != &p, "IncrementCC returns new memory")
	vrt.Assert(ContinuityCounter(a) == (ContinuityCounter(&orig)+1)%16, "IncrementCC wraps modulo 16")
	c01same(&orig, a, 0, 0, 0x0F, "IncrementCC copies everything but the CC")
	vrt.Assert(p == orig, "IncrementCC does not modify its argument")
	z := ZeroCC(&p)
	vrt.Assert(z != &p && ContinuityCounter(z) == 0, "ZeroCC")
	c01same(&orig, z, 0, 0, 0x0F, "ZeroCC copies everything but the CC")
	vrt.Assert(p == orig, "ZeroCC does not modify its argument")
	s := SetCC(&p, n)
	vrt.Assert(s != &p && ContinuityCounter(s) == n, "SetCC sets the requested counter")
	c01same(&orig, s, 0, 0, 0x0F, "SetCC copies everything but the CC")
	vrt.Assert(p == orig, "SetCC does not modify its argument")
	vrt.Reach("end")
}

func VH_C01_Equal() {
	a, b := c01sym("a"), c01sym("b")
	all := true
	for i := 0; i < PacketSize; i++ {
		if a[i] != b[i] {
			all = false
		}
	}
	vrt.Assert(Equal(&a, &b) == all, "Equal iff all 188 bytes are equal")
	vrt.Assert(a.Equals(&b) == all, "method Equals agrees")
	vrt.Assert(Equal(&a, &a), "Equal is reflexive (same pointer)")
	vrt.Assert(!Equal(&a, nil) && !Equal(nil, &b), "a packet never equals nil")
	vrt.Assert(Equal(nil, nil), "nil equals nil")
	vrt.Reach("end")
}

func VH_C01_CheckErrors() {
	p := c01sym("p")
	h := c01hdr(&p)
	bad := h>>24 != 0x47 || h>>6&3 == 1 || h>>4&3 == 0
	err := p.CheckErrors()
	vrt.Assert((err != nil) == bad, "CheckErrors reports an error exactly for bad sync, TSC 01 or AFC 00")
	if h>>24 != 0x47 {
		vrt.Assert(err == gots.ErrBadSyncByte, "a bad sync byte is reported as ErrBadSyncByte")
	}
	vrt.Reach("end")
}

func VH_C01_FromBytes() {
	n := vrt.Choose("len", 0, 190)
	buf := make([]byte, n)
	vrt.Bytes("b", buf)
	pkt, err := FromBytes(buf)
	if n != PacketSize {
		vrt.Assert(pkt == nil && err == gots.ErrInvalidPacketLength, "a slice that is not 188 bytes long yields no packet and ErrInvalidPacketLength")
	} else {
		vrt.Assert(pkt != nil, "a 188-byte slice yields a packet")
		for i := 0; i < PacketSize; i++ {
			vrt.Assert(pkt[i] == buf[i], "FromBytes copies the bytes")
		}
		bad := buf[0] != 0x47 || buf[3]>>6 == 1 || buf[3]>>4&3 == 0
		vrt.Assert((err != nil) == bad, "FromBytes reports the validation error of the packet")
		old := buf[7]
		pkt[7] = old + 1
		vrt.Assert(buf[7] == old, "the packet is an independent copy")
	}
	vrt.Reach("end")
}

func VH_C01_CopyPackets() {
	n := vrt.Choose("n", 0, 3)
	var src []*Packet
	for i := 0; i < n; i++ {
		p := c01sym("p")
		src = append(src, &p)
	}
	dst := CopyPackets(src)
	vrt.Assert(len(dst) == n, "CopyPackets keeps the number of packets")
	for i := 0; i < n; i++ {
		vrt.Assert(dst[i] != src[i], "CopyPackets allocates new memory")
		vrt.Assert(*dst[i] == *src[i], "CopyPackets copies the bytes")
	}
	vrt.Reach("end")
}

func VH_C01_New() {
	p := New()
	vrt.Assert(p.CheckErrors() == nil && p.IsNull() && p.HasPayload() && !p.HasAdaptationField(), "New() is a valid null packet with payload only")
	vrt.Reach("end")
}
