// Package vrt, native side: the intrinsics read the solver's model from a replay
// vector so that a counterexample found symbolically is re-run against the real build.
package vrt

import (
	"encoding/json"
	"fmt"
	"os"
	"runtime/debug"
	"strings"
	"time"
)

type Vector struct {
	File    string            `json:"-"`
	Harness string            `json:"harness"`
	Choices []int             `json:"choices"`
	Tier    int               `json:"tier"`
	Vars    map[string]uint64 `json:"vars"`
	Known   []string          `json:"known"`
}

type Result struct {
	File       string            `json:"file"`
	Harness    string            `json:"harness"`
	Outcome    string            `json:"outcome"` // ok | assert | panic | assume | hang | nofunc
	Detail     string            `json:"detail"`
	Failed     []string          `json:"failed,omitempty"`
	Reached    []string          `json:"reached,omitempty"`
	Observed   map[string]uint64 `json:"observed,omitempty"`
	KnownHit   []string          `json:"known_hit,omitempty"`
	PanicKnown string            `json:"panic_known,omitempty"`
}

type abortT struct{ why string }

var (
	cur     *Vector
	res     *Result
	ctr     map[string]int
	nchoose int
	kpID    string
	kpCond  bool
)

func name(n string) string {
	k := ctr[n]
	ctr[n] = k + 1
	if k == 0 {
		return n
	}
	return fmt.Sprintf("%s#%d", n, k)
}
func get(n string) uint64 { return cur.Vars[name(n)] }

func Byte(n string) byte     { return byte(get(n)) }
func Bool(n string) bool     { return byte(get(n)) != 0 }
func Uint16(n string) uint16 { return uint16(get(n)) }
func Uint32(n string) uint32 { return uint32(get(n)) }
func Uint64(n string) uint64 { return get(n) }
func Int(n string) int       { return int(get(n)) }
func Bytes(n string, b []byte) {
	base := name(n)
	for i := range b {
		b[i] = byte(cur.Vars[fmt.Sprintf("%s[%d]", base, i)])
	}
}
func Choose(n string, lo, hi int) int {
	k := nchoose
	nchoose++
	if k >= len(cur.Choices) {
		panic(abortT{"choice vector too short at " + n})
	}
	return cur.Choices[k]
}
func Tier() int { return cur.Tier }
func Assume(c bool) {
	if !c {
		panic(abortT{"assume"})
	}
}
func Assert(c bool, msg string) {
	if !c {
		res.Failed = append(res.Failed, msg)
	}
}
func IsKnown(id string) bool {
	for _, k := range cur.Known {
		if k == id {
			return true
		}
	}
	return false
}
func AssertKnown(c bool, id string, k bool, msg string) {
	if c {
		return
	}
	if k && IsKnown(id) {
		res.KnownHit = append(res.KnownHit, id+": "+msg)
		return
	}
	res.Failed = append(res.Failed, msg)
}
func PanicKnown(id string, k bool)    { kpID, kpCond = id, k }
func Reach(tag string)                { res.Reached = append(res.Reached, tag) }
func Observe(n string, v uint64)      { res.Observed[n] = v }
func SetUnwind(k int, violation bool) {}
func HavocLoop(fn string, v string)   {}
func HavocUsed(fn string) bool        { return false }
func StubCRC(on bool)                 {}

// UF32 natively: the only uninterpreted function in use is "crc", whose native meaning is CRC-32/MPEG-2.
func UF32(n string, data []byte) uint32 {
	if n != "crc" {
		panic(abortT{"UF32 has no native meaning for " + n})
	}
	crc := uint32(0xFFFFFFFF)
	for _, b := range data {
		crc ^= uint32(b) << 24
		for i := 0; i < 8; i++ {
			if crc&0x80000000 != 0 {
				crc = crc<<1 ^ 0x04C11DB7
			} else {
				crc <<= 1
			}
		}
	}
	return crc
}

func runOne(v *Vector, f func()) (r Result) {
	r = Result{File: v.File, Harness: v.Harness, Observed: map[string]uint64{}}
	cur, res, ctr, nchoose, kpID, kpCond = v, &r, map[string]int{}, 0, "", false
	done := make(chan struct{})
	go func() {
		defer close(done)
		defer func() {
			if x := recover(); x != nil {
				if a, ok := x.(abortT); ok {
					r.Outcome, r.Detail = "assume", a.why
					return
				}
				r.Outcome = "panic"
				st := string(debug.Stack())
				r.Detail = fmt.Sprintf("%v\n%s", x, st)
				if kpID != "" && kpCond {
					r.PanicKnown = kpID
				}
			}
		}()
		f()
	}()
	select {
	case <-done:
	case <-time.After(20 * time.Second):
		r.Outcome, r.Detail = "hang", "no result after 20s"
		return
	}
	if r.Outcome == "" {
		if len(r.Failed) > 0 {
			r.Outcome, r.Detail = "assert", strings.Join(r.Failed, "; ")
		} else {
			r.Outcome = "ok"
		}
	}
	return
}

// RunReplays executes every vector listed in $GOSYM_REPLAY_LIST (one path per
// line) whose harness is in table and appends one JSON line per vector to
// $GOSYM_REPLAY_OUT.
func RunReplays(table map[string]func()) {
	list, err := os.ReadFile(os.Getenv("GOSYM_REPLAY_LIST"))
	if err != nil {
		fmt.Println("vrt: no replay list:", err)
		return
	}
	out, err := os.OpenFile(os.Getenv("GOSYM_REPLAY_OUT"), os.O_APPEND|os.O_CREATE|os.O_WRONLY, 0644)
	if err != nil {
		panic(err)
	}
	defer out.Close()
	for _, p := range strings.Fields(string(list)) {
		data, err := os.ReadFile(p)
		if err != nil {
			continue
		}
		var v Vector
		if err := json.Unmarshal(data, &v); err != nil {
			continue
		}
		v.File = p
		f, ok := table[v.Harness]
		if !ok {
			continue
		}
		r := runOne(&v, f)
		b, _ := json.Marshal(r)
		out.Write(append(b, '\n'))
		if r.Outcome == "hang" {
			// a hung goroutine cannot be stopped: end the process, the rest is re-run by the caller
			out.Close()
			os.Exit(0)
		}
	}
}
