package pes

import (
	"github.com/Comcast/gots/v2/packet"
	"github.com/Comcast/gots/v2/zzverif/vrt"
)

func c05n() int {
	if vrt.Tier() == 0 {
		return 24
	}
	return 32
}

// C05 — NewPESHeader and its getters are total on every byte string up to the bound
func VH_C05_PESHeader() {
	n := vrt.Choose("len", 0, c05n())
	b := make([]byte, n)
	vrt.Bytes("b", b)
	keep := append([]byte{}, b...)
	h, err := NewPESHeader(b)
	if err == nil && h != nil {
		_ = h.HasPTS()
		_ = h.PTS()
		_ = h.HasDTS()
		_ = h.DTS()
		_ = h.Data()
		_ = h.StreamId()
		_ = h.DataAligned()
		_ = h.PacketStartCodePrefix()
		_ = h.(*pESHeader).Format()
	}
	for i := range b {
		vrt.Assert(b[i] == keep[i], "the parser never modifies its input")
	}
	vrt.Reach("end")
}

func VH_C05_AlignedPUSI() {
	var p packet.Packet
	vrt.Bytes("p", p[:])
	orig := p
	_, _ = AlignedPUSI(&p)
	vrt.Assert(p == orig, "AlignedPUSI never modifies the packet")
	vrt.Reach("end")
}
