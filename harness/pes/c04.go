package pes

import (
	"github.com/Comcast/gots/v2"
	"github.com/Comcast/gots/v2/zzverif/vrt"
)

func VH_C04_PTSDecodersAgree() {
	var b [5]byte
	vrt.Bytes("b", b[:])
	vrt.Assert(ExtractTime(b[:]) == gots.ExtractTime(b[:]), "pes.ExtractTime and gots.ExtractTime agree on every input")
	vrt.Reach("end")
}

// end to end: PTS and DTS written by InsertPTS into a PES header are read back by NewPESHeader.
func VH_C04_PESEndToEnd() {
	pts, dts := vrt.Uint64("pts"), vrt.Uint64("dts")
	vrt.Assume(pts < uint64(1)<<33 && dts < uint64(1)<<33)
	buf := make([]byte, 22)
	vrt.Bytes("prior", buf)
	buf[0], buf[1], buf[2] = 0, 0, 1
	buf[3] = 0xE0
	buf[7] = buf[7]&0x3F | 0xC0
	buf[8] = 10
	gots.InsertPTS(buf[9:14], pts)
	gots.InsertPTS(buf[14:19], dts)
	h, err := NewPESHeader(buf)
	vrt.Assert(err == nil && h != nil, "a 22-byte PES header parses")
	vrt.Assert(h.HasPTS() && h.HasDTS(), "PTS_DTS_flags 11 reports both")
	vrt.Assert(h.PTS() == pts, "PTS carried in a PES header is read back unchanged")
	vrt.Assert(h.DTS() == dts, "DTS carried in a PES header is read back unchanged")
	vrt.Reach("end")
}
