package pes

import (
	"github.com/Comcast/gots/v2"
	"github.com/Comcast/gots/v2/packet"
	"github.com/Comcast/gots/v2/zzverif/vrt"
)

// C11 — PES header decoding. Reference builder per ISO/IEC 13818-1 2.4.3.6/2.4.3.7.

func c11noOptional(id byte) bool {
	switch id {
	case 0xBE, 0xBF, 0xF0, 0xF1, 0xF2, 0xF8, 0xFF:
		return true
	}
	return false
}

func c11putTS(b []byte, prefix byte, v uint64) {
	b[0] = prefix<<4 | byte(v>>30&7)<<1 | 1
	b[1] = byte(v >> 22)
	b[2] = byte(v>>15&0x7F)<<1 | 1
	b[3] = byte(v >> 7)
	b[4] = byte(v&0x7F)<<1 | 1
}

// c11build: header with optional part. ptsdts in {0,2,3}; extra = extra optional/stuffing bytes; npay payload bytes.
func c11build(id byte, ptsdts, extra, npay int, pts, dts uint64) ([]byte, int) {
	min := 0
	if ptsdts == 2 {
		min = 5
	} else if ptsdts == 3 {
		min = 10
	}
	hdl := min + extra
	b := make([]byte, 9+hdl+npay)
	vrt.Bytes("raw", b)
	b[0], b[1], b[2] = 0, 0, 1
	b[3] = id
	b[6] = b[6]&0x3F | 0x80
	b[7] = b[7]&0x3F | byte(ptsdts)<<6
	b[8] = byte(hdl)
	if ptsdts == 2 {
		c11putTS(b[9:14], 2, pts)
	} else if ptsdts == 3 {
		c11putTS(b[9:14], 3, pts)
		c11putTS(b[14:19], 1, dts)
	}
	return b, 9 + hdl
}

func c11extraMax() int {
	if vrt.Tier() == 0 {
		return 3
	}
	return 12
}

func VH_C11_OptionalHeader() {
	id := vrt.Byte("stream_id")
	vrt.Assume(!c11noOptional(id))
	k := vrt.Choose("pts_dts", 0, 2)
	ptsdts := []int{0, 2, 3}[k]
	extra := vrt.Choose("extra", 0, c11extraMax())
	npay := vrt.Choose("payload", 0, 3)
	pts, dts := vrt.Uint64("pts"), vrt.Uint64("dts")
	vrt.Assume(pts < uint64(1)<<33 && dts < uint64(1)<<33)
	b, start := c11build(id, ptsdts, extra, npay, pts, dts)
	keep := append([]byte{}, b...)
	h, err := NewPESHeader(b)
	vrt.Assert(err == nil && h != nil, "a well-formed PES packet start decodes without error")
	vrt.Assert(h.PacketStartCodePrefix() == 1, "start-code prefix 00 00 01")
	vrt.Assert(h.StreamId() == id, "stream_id")
	vrt.Assert(h.DataAligned() == (keep[6]&0x04 != 0), "data_alignment_indicator is bit 2 of the first flags byte")
	vrt.Assert(h.HasPTS() == (ptsdts != 0), "PTS presence follows PTS_DTS_flags")
	vrt.Assert(h.HasDTS() == (ptsdts == 3), "DTS presence follows PTS_DTS_flags")
	if ptsdts != 0 {
		vrt.Assert(h.PTS() == pts, "exact 33-bit PTS")
	}
	if ptsdts == 3 {
		vrt.Assert(h.DTS() == dts, "exact 33-bit DTS")
	}
	d := h.Data()
	vrt.Assert(len(d) == npay, "Data() has exactly the bytes that follow the header (PES_header_data_length honoured)")
	for i := 0; i < npay && i < len(d); i++ {
		vrt.Assert(d[i] == keep[start+i], "Data() returns the bytes after 9 + PES_header_data_length")
	}
	for i := range b {
		vrt.Assert(b[i] == keep[i], "decoding does not modify the input")
	}
	vrt.Reach("end")
}

// full range of PES_header_data_length with PTS only: thorough tier walks 0..255 in steps
func VH_C11_HeaderLengths() {
	var hdl int
	if vrt.Tier() == 0 {
		hdl = []int{5, 6, 100, 254, 255}[vrt.Choose("hdl", 0, 4)]
	} else {
		hdl = vrt.Choose("hdl", 5, 255)
	}
	id := vrt.Byte("stream_id")
	vrt.Assume(!c11noOptional(id))
	pts := vrt.Uint64("pts")
	vrt.Assume(pts < uint64(1)<<33)
	b, start := c11build(id, 2, hdl-5, 2, pts, 0)
	k0, k1 := b[start], b[start+1]
	h, err := NewPESHeader(b)
	vrt.Assert(err == nil && h.HasPTS() && !h.HasDTS() && h.PTS() == pts, "PTS-only header with any PES_header_data_length")
	d := h.Data()
	vrt.Assert(len(d) == 2 && d[0] == k0 && d[1] == k1, "Data() starts after the whole optional header including stuffing")
	vrt.Reach("end")
}

func VH_C11_NoOptionalHeader() {
	id := vrt.Byte("stream_id")
	vrt.Assume(c11noOptional(id))
	n := vrt.Choose("payload", 1, 6)
	b := make([]byte, 6+n)
	vrt.Bytes("raw", b)
	b[0], b[1], b[2] = 0, 0, 1
	b[3] = id
	keep := append([]byte{}, b...)
	h, err := NewPESHeader(b)
	vrt.Assert(err == nil && h != nil, "decodes")
	vrt.Assert(h.PacketStartCodePrefix() == 1 && h.StreamId() == id, "prefix and stream_id")
	vrt.Assert(!h.HasPTS() && !h.HasDTS(), "stream ids without the optional header carry no timestamps")
	d := h.Data()
	vrt.Assert(len(d) == n, "data is everything after PES_packet_length")
	for i := 0; i < n && i < len(d); i++ {
		vrt.Assert(d[i] == keep[6+i], "Data() returns the byte after PES_packet_length onwards")
	}
	vrt.Reach("end")
}

// packet-level detection on a symbolic transport packet (adaptation_field_length enumerated over a boundary set)
func c11packet() (packet.Packet, int, bool) {
	var p packet.Packet
	vrt.Bytes("p", p[:])
	shape := vrt.Choose("af", 0, 7)
	start := 4
	hasPay := true
	switch shape {
	case 0:
		p[3] = p[3]&0xCF | 0x10
	case 1:
		p[3] = p[3]&0xCF | 0x20
		p[4] = 183
		hasPay = false
	default:
		p[3] |= 0x30
		L := []int{0, 1, 100, 176, 179, 180, 182}[shape-2+0]
		if shape == 7 {
			L = 182
		}
		p[4] = byte(L)
		start = 5 + L
	}
	return p, start, hasPay
}

func VH_C11_PacketPESHeader() {
	p, start, hasPay := c11packet()
	orig := p
	pusi := p[1]&0x40 != 0
	want := pusi && hasPay && 188-start >= 4 && p[start] == 0 && p[start+1] == 0 && p[start+2] == 1
	b, err := packet.PESHeader(&p)
	vrt.Assert((err == nil) == want, "PES header bytes exactly when PUSI is set and the payload (>= 4 bytes) begins with 00 00 01")
	if want {
		vrt.Assert(len(b) == 188-start, "the returned bytes are the payload")
		for i := 0; i < len(b); i++ {
			vrt.Assert(b[i] == orig[start+i], "the returned bytes are the payload bytes")
		}
	}
	vrt.Assert(p == orig, "the packet is not modified")
	vrt.Reach("end")
}

func VH_C11_AlignedPUSI() {
	p, start, hasPay := c11packet()
	orig := p
	pusi := p[1]&0x40 != 0
	isPES := pusi && hasPay && 188-start >= 4 && p[start] == 0 && p[start+1] == 0 && p[start+2] == 1
	if isPES && 188-start >= 7 {
		vrt.Assume(!c11noOptional(p[start+3]))
	}
	d, ok := AlignedPUSI(&p)
	want := isPES && 188-start >= 7 && orig[start+6]&0x04 != 0
	vrt.Assert(ok == want, "AlignedPUSI exactly when the packet starts a PES packet whose header has data_alignment_indicator set")
	if want && 188-start >= 9 {
		ds := start + 9 + int(orig[start+8])
		if ds < 188 {
			vrt.Assert(len(d) == 188-ds, "AlignedPUSI returns the PES data")
			for i := 0; i < len(d); i++ {
				vrt.Assert(d[i] == orig[ds+i], "AlignedPUSI returns the bytes after the PES header")
			}
		} else {
			vrt.Assert(len(d) == 0, "no data when the header fills the packet")
		}
	}
	if !ok {
		vrt.Assert(d == nil, "no data without a match")
	}
	vrt.Assert(p == orig, "the packet is not modified")
	vrt.Reach("end")
}

func VH_C11_Agree() {
	var b [5]byte
	vrt.Bytes("b", b[:])
	vrt.Assert(ExtractTime(b[:]) == gots.ExtractTime(b[:]), "both PTS decoders agree")
	vrt.Reach("end")
}
