// Package vrt: intrinsics of the gosym symbolic executor. This file is the
// engine-side view (body-less declarations intercepted by the executor); the
// native implementation used for replaying solver models is ../vrt_native/vrt.go.
package vrt

// Fresh symbolic inputs.
func Byte(name string) byte
func Bool(name string) bool
func Uint16(name string) uint16
func Uint32(name string) uint32
func Uint64(name string) uint64
func Int(name string) int

// Bytes fills b with fresh symbolic bytes named name[i].
func Bytes(name string, b []byte)

// Choose is an enumerated (concrete) choice lo..hi; every value becomes its own job.
func Choose(name string, lo, hi int) int

// Tier is 0 for the quick tier and 1 for the thorough tier.
func Tier() int

func Assume(c bool)
func Assert(c bool, msg string)

// AssertKnown is Assert(c || k) when id is a listed known finding, with the witness k && !c reported as KNOWN-FINDING.
func AssertKnown(c bool, id string, k bool, msg string)

// PanicKnown attributes run-time panics raised while k holds to the listed known finding id ("" clears).
func PanicKnown(id string, k bool)
func IsKnown(id string) bool

// Reach is a vacuity witness: it must be reachable under a satisfiable path condition.
func Reach(tag string)

// Observe records a value compared between engine and native execution.
func Observe(name string, v uint64)

// SetUnwind sets the loop unwinding limit; violation makes exceeding it a property violation (C05) instead of an inconclusive run.
func SetUnwind(k int, violation bool)

// HavocLoop(fn, v) makes the loop-carried scalar v of the first loop of every later call of fn start
// from one fresh symbolic value (loop cut, always the same value); v == "" switches the cut off.
// The engine checks the side conditions (no stores/calls in the loop, other phis are counters).
func HavocLoop(fn string, v string)
func HavocUsed(fn string) bool

// UF32 is an uninterpreted 32-bit function of a byte string.
func UF32(name string, data []byte) uint32

// StubCRC(true) replaces gots.ComputeCRC by the uninterpreted function UF32("crc", input) (big-endian bytes)
// for the rest of the harness; that ComputeCRC is CRC-32/MPEG-2 is property C13.
func StubCRC(on bool)
