#!/usr/bin/env python3
"""Regenerates /verif/MANIFEST.json from tools/manifest_table.json (one entry per claimed property)."""
import json, os, sys
here = os.path.dirname(os.path.dirname(os.path.abspath(__file__)))
tab = json.load(open(os.path.join(here, "tools", "manifest_table.json")))
props = [json.loads(l)["id"] for l in open(os.path.join(here, "properties.jsonl")) if l.strip()]
checks = []
for pid in props:
    t = tab["checks"].get(pid)
    if not t:
        continue
    checks.append({
        "property_id": pid,
        "quick_cmd": f"./vcheck {pid} quick",
        "thorough_cmd": f"./vcheck {pid} thorough",
        "evidence_file": f"/verif/evidence/{pid}.json",
        "replay_cmd_template": "./vcheck-replay {path}",
        "engine": "gosym",
        "level_claimed": {"category": "model_checking", "text": t["text"], "design_ref": t.get("design_ref", "DESIGN.md section 5 (" + pid + ")")},
        "level_note": t["note"],
        "technique": t.get("technique", "bounded symbolic execution of the real Go SSA (own engine gosym) + SMT (z3 5.1.0, cvc5, z3 4.8.12); sat models replayed natively"),
    })
na = [{"property_id": p, "reason": tab["not_applicable"].get(p, "no check built yet in this round (see DESIGN.md)")} for p in props if p not in tab["checks"]]
m = {
    "version": 1,
    "setup_cmd": "cd /verif/engine && GOFLAGS=-mod=mod GOPROXY=off GOSUMDB=off GOTOOLCHAIN=local go build -o /verif/bin/gosym .",
    "hooks": {"guard": "verif", "enable": "none needed: harnesses are injected through a go/packages and go test -overlay; /repo carries no hook code", "baseline_off_cmd": "cd /repo && go test -vet=off -count=1 ./...", "source_commits": [], "add_only": True},
    "engines": [{"name": "gosym", "path": "/verif/engine", "serves_properties": [c["property_id"] for c in checks], "kind_free_text": "SSA-based symbolic executor for Go (golang.org/x/tools/go/ssa v0.29.0) with state merging, emitting SMT-LIB2 bit-vector queries to z3/cvc5; native replay of models through go test -overlay"}],
    "checks": checks,
    "notes": tab.get("notes", ""),
    "not_applicable": na,
}
json.dump(m, open(os.path.join(here, "MANIFEST.json"), "w"), indent=1)
print("MANIFEST.json:", len(checks), "checks,", len(na), "not_applicable")
