#!/bin/bash
# usage: tools/seedcheck.sh <seed-dir under /tmp/seed> <property> <pkgdir of demo> [tier]
# 1. verifies the seeded change independently in a fresh scratch worktree (suite passes with it,
#    demo fails with it, demo passes without it); 2. applies it to /repo, runs the check, reverts.
set -u
sid=$1; prop=$2; pkg=$3; tier=${4:-quick}
export GOFLAGS=-mod=mod GOPROXY=off GOSUMDB=off GOTOOLCHAIN=local
src=/tmp/seed/$sid/OUT; [ -f $src/patch.diff ] || src=/verif/seeded/$sid
wt=/tmp/seedv/$sid
rm -rf $wt; git -C /repo worktree prune; mkdir -p /tmp/seedv
git -C /repo worktree add -q --detach $wt HEAD || exit 2
cd $wt
git apply $src/patch.diff || { echo "PATCH-FAILS"; exit 2; }
suite=$(go test -count=1 ./... 2>&1 | grep -v "no test files" | grep -vc "^ok")
cp $src/zz_demo_test.go $wt/$pkg/zz_demo_test.go
demo_with=$(go test -count=1 ./$pkg/ 2>&1 | tail -1 | cut -c1-60)
git checkout -q -- . ; 
demo_without=$(go test -count=1 ./$pkg/ 2>&1 | tail -1 | cut -c1-60)
cd /verif
git -C /repo worktree remove --force $wt
echo "seed=$sid prop=$prop suite_failures_with_change=$suite demo_with_change='$demo_with' demo_without_change='$demo_without'"
git -C /repo apply $src/patch.diff || { echo "APPLY-TO-REPO-FAILS"; exit 2; }
out=$(./vcheck $prop $tier 2>&1 | grep -v "^\[")
code=$?
git -C /repo checkout -- .
echo "$out" | grep -c "^VIOLATION" | sed 's/^/violation_lines=/'
echo "$out" | grep "violated:" | sed 's/\[github.*//;s/\[(\*github.*//' | sort | uniq -c | sort -rn | head -4
echo "$out" | tail -1 | cut -c1-160
mkdir -p /verif/seeded/$sid
[ "$src" = "/verif/seeded/$sid" ] || cp $src/patch.diff /verif/seeded/$sid/patch.diff
[ "$src" = "/verif/seeded/$sid" ] || cp $src/zz_demo_test.go /verif/seeded/$sid/zz_demo_test.go
cp $src/notes.txt /verif/seeded/$sid/notes.txt 2>/dev/null
echo "$out" | tail -40 > /verif/seeded/$sid/check_output.txt
